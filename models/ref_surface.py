"""RefSurface: every adjacency answer of a polygon surface by direct inspection of the face list.
Written from the C01 statement and the public docstrings; does not import mouette."""


def is_oriented_manifold(nv, faces):
    """no repeated vertex in a face; every directed edge at most once; no two faces on the same vertex set;
    no unused vertex; the corners at each vertex form exactly one closed or open fan."""
    he = {}
    seen_sets = set()
    used = set()
    for fi, f in enumerate(faces):
        n = len(f)
        if n < 3 or len(set(f)) != n:
            return False
        key = frozenset(f)
        if key in seen_sets:
            return False
        seen_sets.add(key)
        for j in range(n):
            a, b = f[j], f[(j + 1) % n]
            if not (0 <= a < nv):
                return False
            if (a, b) in he:
                return False
            he[(a, b)] = fi
            used.add(a)
    if len(used) != nv:
        return False
    # fans
    inc = {}
    for fi, f in enumerate(faces):
        n = len(f)
        for j in range(n):
            inc.setdefault(f[j], []).append((f[(j - 1) % n], f[(j + 1) % n]))  # (prev, next) around v
    for v, pn in inc.items():
        nxt = {}
        prevs = set()
        for p, n_ in pn:
            if n_ in nxt:
                return False  # directed edge v->n twice (already excluded)
            nxt[n_] = p  # face entered through edge v->n leaves through p->v
            prevs.add(p)
        # chain: from a face (p,v,n): the next face in the fan is the one whose 'next' is p
        starts = [n_ for n_ in nxt if n_ not in prevs]
        if len(starts) > 1:
            return False
        cur = starts[0] if starts else next(iter(nxt))
        count = 0
        seen = set()
        while cur in nxt and cur not in seen:
            seen.add(cur)
            count += 1
            cur = nxt[cur]
        if count != len(pn):
            return False
    return True


def has_chord(faces):
    """some face has two non-consecutive vertices that are joined by an edge of the mesh (then no diagonal-only triangulation of
    that face keeps the surface a manifold)"""
    edges = {tuple(sorted((f[j], f[(j + 1) % len(f)]))) for f in faces for j in range(len(f))}
    for f in faces:
        n = len(f)
        for i in range(n):
            for j in range(i + 2, n):
                if (j + 1) % n == i:
                    continue
                if tuple(sorted((f[i], f[j]))) in edges:
                    return True
    return False


def is_regular_complex(faces):
    """two distinct faces share nothing, one vertex, or exactly one common edge (two vertices consecutive in both faces)"""
    by_vertex = {}
    for fi, f in enumerate(faces):
        for v in f:
            by_vertex.setdefault(v, []).append(fi)
    shared = {}
    for v, fs in by_vertex.items():
        for a in range(len(fs)):
            for b in range(a + 1, len(fs)):
                shared.setdefault((fs[a], fs[b]), []).append(v)
    for (fa, fb), vs in shared.items():
        if len(vs) < 2:
            continue
        if len(vs) > 2:
            return False
        u, v = vs
        for f in (faces[fa], faces[fb]):
            i, j = f.index(u), f.index(v)
            if (i - j) % len(f) not in (1, len(f) - 1):
                return False
    return True


class RefSurface:
    def __init__(self, nv, faces, edges=None):
        self.nv = nv
        self.faces = [list(f) for f in faces]
        self.edges = None if edges is None else [tuple(e) for e in edges]  # the mesh's own (durable) edge list
        self.first = []
        self.cface, self.cloc = [], []
        c = 0
        for fi, f in enumerate(self.faces):
            self.first.append(c)
            for j in range(len(f)):
                self.cface.append(fi)
                self.cloc.append(j)
            c += len(f)
        self.nc = c
        self.he = {}
        for fi, f in enumerate(self.faces):
            n = len(f)
            for j in range(n):
                self.he[(f[j], f[(j + 1) % n])] = (fi, j)
        self.fid = {tuple(sorted(f)): fi for fi, f in enumerate(self.faces)}
        self.eid = None if self.edges is None else {tuple(sorted(e)): i for i, e in enumerate(self.edges)}

    # ---- corners
    def corner(self, f, j):
        return self.first[f] + j % len(self.faces[f])

    def corner_vertex(self, c):
        return self.faces[self.cface[c]][self.cloc[c]]

    def next_corner(self, c):
        return self.corner(self.cface[c], self.cloc[c] + 1)

    def previous_corner(self, c):
        return self.corner(self.cface[c], self.cloc[c] - 1)

    def corner_to_half_edge(self, c):
        f = self.faces[self.cface[c]]
        j = self.cloc[c]
        return (f[j], f[(j + 1) % len(f)])

    def half_edge_to_corner(self, u, v):
        if (u, v) not in self.he:
            return None
        f, j = self.he[(u, v)]
        return self.corner(f, j)

    def opposite_corner(self, c):
        a, b = self.corner_to_half_edge(c)
        return self.half_edge_to_corner(b, a)

    def corner_to_face(self, c):
        return self.cface[c]

    def vertex_to_corner_in_face(self, v, f):
        if not (0 <= f < len(self.faces)) or v not in self.faces[f]:
            return None
        return self.corner(f, self.faces[f].index(v))

    # ---- edges / faces
    def direct_face(self, u, v):
        return self.he[(u, v)][0] if (u, v) in self.he else None

    def direct_face_inds(self, u, v):
        if (u, v) not in self.he:
            return (None, None, None)
        f, j = self.he[(u, v)]
        return (f, j, (j + 1) % len(self.faces[f]))

    def is_edge(self, u, v):
        return (u, v) in self.he or (v, u) in self.he

    def edge_id(self, u, v):
        return self.eid.get(tuple(sorted((u, v))))

    def face_id(self, verts):
        return self.fid.get(tuple(sorted(verts)))

    def opposite_face(self, u, v, F):
        f1, f2 = self.direct_face(u, v), self.direct_face(v, u)
        if F == f1:
            return f2
        if F == f2:
            return f1
        return None

    def shared_edges(self, f1, f2):
        out = set()
        F = self.faces[f1]
        for j in range(len(F)):
            a, b = F[j], F[(j + 1) % len(F)]
            if self.direct_face(b, a) == f2:
                out.add(tuple(sorted((a, b))))
        return out

    def face_to_faces(self, f):
        F = self.faces[f]
        out = []
        for j in range(len(F)):
            g = self.direct_face(F[(j + 1) % len(F)], F[j])
            if g is not None:
                out.append(g)
        return out

    def face_to_corners(self, f):
        return [self.first[f] + j for j in range(len(self.faces[f]))]

    # ---- border
    def is_border_edge(self, u, v):
        return ((u, v) in self.he) != ((v, u) in self.he)

    def border_edge_pairs(self):
        return {tuple(sorted(k)) for k in self.he if (k[1], k[0]) not in self.he}

    def all_edge_pairs(self):
        return {tuple(sorted(k)) for k in self.he}

    def border_vertices(self):
        return {v for e in self.border_edge_pairs() for v in e}

    # ---- rings (sorted, "clockwise": after face (..,P,V,N,..) comes the face holding half-edge N->V)
    def ring(self, v):
        """(is_border, [(face, P, N), ...]) in rotational order; border: starts at the face whose edge P->V is border."""
        inc = []
        for fi, f in enumerate(self.faces):
            if v in f:
                j = f.index(v)
                inc.append((fi, f[(j - 1) % len(f)], f[(j + 1) % len(f)]))
        if not inc:
            return False, []
        by_next = {n: (fi, p, n) for fi, p, n in inc}  # face whose N is n
        by_prev = {p: (fi, p, n) for fi, p, n in inc}
        # successor of (fi,P,N) is the face holding half-edge N->V, i.e. the face whose P is N
        starts = [t for t in inc if (t[1], v) in self.he and (v, t[1]) not in self.he]  # P->V has no opposite
        border = len(starts) > 0
        cur = starts[0] if border else inc[0]
        out = []
        seen = set()
        while cur is not None and cur[0] not in seen:
            out.append(cur)
            seen.add(cur[0])
            cur = by_prev.get(cur[2])
        return border, out

    def vertex_faces(self, v):
        return {fi for fi, f in enumerate(self.faces) if v in f}

    def vertex_neighbours(self, v):
        out = set()
        for (a, b) in self.he:
            if a == v:
                out.add(b)
            if b == v:
                out.add(a)
        return out

    # ---- topology
    def euler(self):
        return self.nv - len(self.all_edge_pairs()) + len(self.faces)

    def border_loops(self):
        nxt = {}
        for (a, b) in self.he:
            if (b, a) not in self.he:
                nxt[a] = b
        seen, loops = set(), 0
        for a in nxt:
            if a in seen:
                continue
            loops += 1
            c = a
            while c not in seen:
                seen.add(c)
                c = nxt[c]
        return loops

    def components(self):
        par = list(range(self.nv))

        def find(x):
            while par[x] != x:
                par[x] = par[par[x]]
                x = par[x]
            return x
        for f in self.faces:
            for v in f[1:]:
                par[find(v)] = find(f[0])
        return len({find(v) for f in self.faces for v in f})


def cyclic_equal(a, b):
    """a is a rotation of b"""
    a, b = list(a), list(b)
    if len(a) != len(b):
        return False
    if not a:
        return True
    n = len(a)
    for k in range(n):
        if a[k] == b[0] and a[k:] + a[:k] == b:
            return True
    return False
