"""Reference models for C19 (samplers + Bezier).  Written from the property statement and
textbook definitions only; imports neither mouette nor any global PRNG.

* Bernstein form of Bezier curves / tensor-product patches (math.comb, float64, fsum)
* 'nearest perfect power' in exact integer arithmetic
* vectorised point-to-segment distance and point-in-triangle (barycentric) tests
* chi-square goodness-of-fit statistic with small-cell pooling
"""
import math

import numpy as np


# ------------------------------------------------------------------------------------------
# Bezier = Bernstein
# ------------------------------------------------------------------------------------------
def bernstein_weights(n, t):
    """[C(n,i) t^i (1-t)^(n-i)] for i = 0..n   (0.0**0 == 1.0 in Python)"""
    t = float(t)
    s = 1.0 - t
    return [math.comb(n, i) * (t ** i) * (s ** (n - i)) for i in range(n + 1)]


def bernstein_curve(P, t):
    """P: (n+1) control points (lists of equal length) -> list of coordinates of sum_i B_i^n(t) P_i"""
    n = len(P) - 1
    w = bernstein_weights(n, t)
    return [math.fsum(w[i] * P[i][k] for i in range(n + 1)) for k in range(len(P[0]))]


def bernstein_patch(P, u, v, u_inner=True):
    """Tensor-product Bernstein form of a control net P[i][j] (rows i = 0..m, columns j = 0..n).
    u_inner=True : S(u,v) = sum_i sum_j B_i^m(v) B_j^n(u) P[i][j]   (u runs along a row)
    u_inner=False: S(u,v) = sum_i sum_j B_i^m(u) B_j^n(v) P[i][j]"""
    m, n = len(P) - 1, len(P[0]) - 1
    if u_inner:
        wi, wj = bernstein_weights(m, v), bernstein_weights(n, u)
    else:
        wi, wj = bernstein_weights(m, u), bernstein_weights(n, v)
    dim = len(P[0][0])
    return [math.fsum(wi[i] * wj[j] * P[i][j][k] for i in range(m + 1) for j in range(n + 1)) for k in range(dim)]


def max_abs(P):
    """largest |coordinate| of a (nested) list of control points"""
    if isinstance(P, (int, float)):
        return abs(float(P))
    return max((max_abs(x) for x in P), default=0.0)


def flat_points(P):
    """control net or curve -> flat list of points"""
    if P and isinstance(P[0][0], (list, tuple)):
        return [p for row in P for p in row]
    return list(P)


# ------------------------------------------------------------------------------------------
# grid mode: "the nearest perfect power"
# ------------------------------------------------------------------------------------------
def iroot(n, d):
    """floor of the d-th root of n >= 0, exact"""
    k = int(round(n ** (1.0 / d)))
    while k ** d > n:
        k -= 1
    while (k + 1) ** d <= n:
        k += 1
    return k


def nearest_perfect_powers(n, d):
    """Set of admissible point counts for a grid request of n >= 1 points in dimension d.
    'Nearest perfect power' is read in both reasonable ways - the power k^d whose ROOT k is nearest to
    n^(1/d) (what the docstring of sample_AABB calls 'nearest perfect n-th root') and the power whose VALUE
    is nearest to n; a count is accepted if it is the answer under either reading.  A perfect power n
    admits only n itself."""
    k = iroot(n, d)
    if k ** d == n:
        return {n}
    lo, hi = k ** d, (k + 1) ** d
    out = set()
    # nearest root: n^(1/d) < k + 1/2  <=>  n * 2^d < (2k+1)^d   (never equal: rhs is odd)
    out.add(lo if n * 2 ** d < (2 * k + 1) ** d else hi)
    # nearest value
    if n - lo <= hi - n:
        out.add(lo)
    if hi - n <= n - lo:
        out.add(hi)
    out.discard(0)
    return out


# ------------------------------------------------------------------------------------------
# geometry (vectorised; callers wrap in np.errstate)
# ------------------------------------------------------------------------------------------
class RefSegments:
    """edges of a polyline as segments"""

    def __init__(self, points, edges):
        P = np.asarray(points, dtype=float).reshape(-1, 3)
        E = np.asarray(edges, dtype=int).reshape(-1, 2)
        self.A = P[E[:, 0]]
        self.D = P[E[:, 1]] - self.A
        self.len2 = np.einsum("ij,ij->i", self.D, self.D)
        self.length = np.sqrt(self.len2)
        self.scale = float(np.max(np.abs(P))) if len(P) else 0.0

    def distances(self, X):
        """(n, E) matrix of distances from each point to each segment"""
        V = X[:, None, :] - self.A[None, :, :]
        t = np.einsum("nek,ek->ne", V, self.D) / self.len2[None, :]
        t = np.clip(t, 0.0, 1.0)
        R = V - t[:, :, None] * self.D[None, :, :]
        return np.sqrt(np.einsum("nek,nek->ne", R, R))


class RefTriangles:
    """faces of a triangulated surface"""

    def __init__(self, points, faces):
        P = np.asarray(points, dtype=float).reshape(-1, 3)
        F = np.asarray(faces, dtype=int).reshape(-1, 3)
        self.A = P[F[:, 0]]
        self.e0 = P[F[:, 1]] - self.A
        self.e1 = P[F[:, 2]] - self.A
        n = np.cross(self.e0, self.e1)
        self.dblarea = np.linalg.norm(n, axis=1)
        self.area = 0.5 * self.dblarea
        self.unit_normal = n / self.dblarea[:, None]
        self.d00 = np.einsum("ij,ij->i", self.e0, self.e0)
        self.d01 = np.einsum("ij,ij->i", self.e0, self.e1)
        self.d11 = np.einsum("ij,ij->i", self.e1, self.e1)
        self.den = self.d00 * self.d11 - self.d01 * self.d01
        self.scale = float(np.max(np.abs(P))) if len(P) else 0.0
        e2 = self.e1 - self.e0
        longest = np.sqrt(np.maximum(np.maximum(self.d00, self.d11), np.einsum("ij,ij->i", e2, e2)))
        self.altitude = self.dblarea / longest  # smallest altitude of each triangle

    def locate(self, X):
        """-> (minbary (n,F), offplane (n,F)): smallest barycentric coordinate of the projection of each
        point on each triangle's plane, and its distance to that plane"""
        V = X[:, None, :] - self.A[None, :, :]
        off = np.abs(np.einsum("nfk,fk->nf", V, self.unit_normal))
        d20 = np.einsum("nfk,fk->nf", V, self.e0)
        d21 = np.einsum("nfk,fk->nf", V, self.e1)
        b1 = (self.d11[None, :] * d20 - self.d01[None, :] * d21) / self.den[None, :]
        b2 = (self.d00[None, :] * d21 - self.d01[None, :] * d20) / self.den[None, :]
        b0 = 1.0 - b1 - b2
        return np.minimum(np.minimum(b0, b1), b2), off


def quality(points, faces):
    """(largest |coordinate|, smallest triangle altitude) in pure Python - used by the world generator to keep
    the conditioning of the barycentric test (error ~ eps * S / h) far below its 1e-9 tolerance"""
    S = max((abs(c) for p in points for c in p), default=0.0)
    h = float("inf")
    for f in faces:
        a, b, c = (points[i] for i in f)
        e0 = [b[k] - a[k] for k in range(3)]
        e1 = [c[k] - a[k] for k in range(3)]
        e2 = [c[k] - b[k] for k in range(3)]
        n = [e0[1] * e1[2] - e0[2] * e1[1], e0[2] * e1[0] - e0[0] * e1[2], e0[0] * e1[1] - e0[1] * e1[0]]
        dbl = math.sqrt(sum(x * x for x in n))
        longest = math.sqrt(max(sum(x * x for x in e) for e in (e0, e1, e2)))
        if longest == 0.0:
            return S, 0.0
        h = min(h, dbl / longest)
    return S, h


# ------------------------------------------------------------------------------------------
# chi-square with pooling of small cells
# ------------------------------------------------------------------------------------------
def chi2_pooled(observed, weights, min_expected=5.0):
    """observed counts per cell, weights (any positive scale) per cell ->
    (statistic, degrees of freedom, number of cells after pooling).  Cells are pooled smallest-expected-first
    until every cell has expected count >= min_expected."""
    obs = [float(o) for o in observed]
    N = sum(obs)
    tot = math.fsum(weights)
    exp = [N * w / tot for w in weights]
    order = sorted(range(len(exp)), key=lambda i: (exp[i], i))
    cells = []  # (expected, observed)
    pe = po = 0.0
    for i in order:
        if exp[i] < min_expected or (pe > 0.0 and pe < min_expected):
            pe += exp[i]
            po += obs[i]
            if pe >= min_expected:
                cells.append((pe, po))
                pe = po = 0.0
        else:
            cells.append((exp[i], obs[i]))
    if pe > 0.0:
        if cells:
            e, o = cells[0]
            cells[0] = (e + pe, o + po)
        else:
            cells.append((pe, po))
    stat = math.fsum((o - e) ** 2 / e for e, o in cells if e > 0)
    return stat, len(cells) - 1, len(cells)
