"""RefNormalise: the normal form a finished mesh must have, computed from the raw spec and the completion
switches in force at build time (C02).  No mouette import."""


def tet_faces(c):
    v0, v1, v2, v3 = c
    return [(v1, v3, v2), (v0, v2, v3), (v3, v1, v0), (v0, v1, v2)]  # face i is opposite vertex i


def hex_faces(c):
    # vertex order: bottom loop 0-3, top loop 4-7 (Medit / VTK convention)
    a, b, c_, d, e, f, g, h = c
    return [(a, b, c_, d), (e, f, g, h), (a, d, h, e), (a, b, f, e), (b, c_, g, f), (c_, d, h, g)]


def cell_faces(c):
    return tet_faces(c) if len(c) == 4 else hex_faces(c)


def key(t):
    return tuple(sorted(t))


class Normal:
    """expected finished state"""

    def __init__(self, spec, complete_edges=True, complete_faces=True):
        self.spec = spec
        n = len(spec["points"])
        self.points = [list(map(float, p)) + [0.0] * (3 - len(p)) for p in spec["points"]]
        decl_faces = [list(f) for f in spec.get("faces", [])]
        cells = [list(c) for c in spec.get("cells", [])]
        # faces: declared, then (switch) the faces of the cells that are not there yet, a shared face once
        self.faces_declared = decl_faces
        fset = {key(f) for f in decl_faces}
        completed = []
        if complete_faces:
            for c in cells:
                for f in cell_faces(c):
                    if key(f) not in fset:
                        fset.add(key(f))
                        completed.append(list(f))
        self.faces_completed = completed
        self.face_keys = [key(f) for f in decl_faces] + [key(f) for f in completed]
        self.cells = cells
        all_faces = decl_faces + completed
        # edges: declared valid ones (low index first), then every side of every face exactly once
        decl = [tuple(e) for e in spec.get("edges", [])]
        self.declared_valid = []  # (declared index, key)
        for i, (a, b) in enumerate(decl):
            if a != b and 0 <= a < n and 0 <= b < n:
                self.declared_valid.append((i, key((a, b))))
        self.n_invalid = len(decl) - len(self.declared_valid)
        eset = {key(e) for e in decl}
        sides = []
        self.edges_completed = bool(complete_edges and all_faces)
        if self.edges_completed:
            for f in all_faces:
                m = len(f)
                for j in range(m):
                    k = key((f[j], f[(j + 1) % m]))
                    if k[0] == k[1]:
                        continue  # a face listing a vertex twice in a row: that "side" is a self-loop, and self-loops are dropped
                    if k not in eset:
                        eset.add(k)
                        sides.append(k)
        self.edge_keys = [k for _, k in self.declared_valid] + sides  # as a multiset (order is not part of the statement)
        self.hard = {k for _, k in self.declared_valid}
        # dimension / class
        if cells:
            self.dim = 3
        elif all_faces:
            self.dim = 2
        elif self.edge_keys:
            self.dim = 1
        else:
            self.dim = 0
        self.class_name = ["PointCloud", "PolyLine", "SurfaceMesh", "VolumeMesh"][self.dim]
        # edge attribute: value per surviving declared edge
        ea = spec.get("eattr")
        self.eattr = None
        if ea:
            vals = {}
            for i, k in self.declared_valid:
                if str(i) in ea["values"]:
                    vals[k] = ea["values"][str(i)]
            self.eattr = {"name": ea["name"], "type": ea["type"], "values": vals,
                          "default": 0.0 if ea["type"] == "float" else 0}
