"""World generators for surfaces: oriented manifold polygon meshes of every shape the C01/C06/C13
statements quantify over.  Independent of mouette (mouette.procedural is itself under a property).

A surface is (points: list of [x,y,z], faces: list of lists of vertex indices)."""
import math

from .ref_surface import is_oriented_manifold


# ------------------------------------------------------------------------------ bases
def grid(nx, ny, kind="quad", rng=None, periodic_x=False, periodic_y=False):
    """nx x ny cells.  kind: quad | tri | mixed.  CCW faces seen from +z."""
    wx = nx if periodic_x else nx + 1
    wy = ny if periodic_y else ny + 1

    def vid(i, j):
        return (i % wx) * wy + (j % wy)

    pts = []
    for i in range(wx):
        for j in range(wy):
            if periodic_x and periodic_y:  # torus
                R, r = 2.0, 0.7
                a, b = 2 * math.pi * i / nx, 2 * math.pi * j / ny
                pts.append([(R + r * math.cos(b)) * math.cos(a), (R + r * math.cos(b)) * math.sin(a), r * math.sin(b)])
            elif periodic_x:  # open cylinder
                a = 2 * math.pi * i / nx
                pts.append([math.cos(a), math.sin(a), float(j) / max(ny, 1)])
            else:
                pts.append([float(i), float(j), 0.0])
    faces = []
    for i in range(nx):
        for j in range(ny):
            a, b, c, d = vid(i, j), vid(i + 1, j), vid(i + 1, j + 1), vid(i, j + 1)
            k = kind
            if kind == "mixed":
                k = rng.choice(["quad", "tri"])
            if k == "quad":
                faces.append([a, b, c, d])
            else:
                if rng is not None and rng.chance(0.5):
                    faces += [[a, b, c], [a, c, d]]
                else:
                    faces += [[a, b, d], [b, c, d]]
    if periodic_x and not periodic_y:
        # cylinder embedding above is seen from outside with faces CCW? orientation is consistent either way
        pass
    return pts, faces


def solid(name, n=None):
    """closed genus-0 polyhedra, outward orientation"""
    if name == "tetra":
        pts = [[1, 1, 1], [1, -1, -1], [-1, 1, -1], [-1, -1, 1]]
        faces = [[0, 1, 2], [0, 3, 1], [0, 2, 3], [1, 3, 2]]
    elif name == "octa":
        pts = [[1, 0, 0], [-1, 0, 0], [0, 1, 0], [0, -1, 0], [0, 0, 1], [0, 0, -1]]
        faces = [[0, 2, 4], [2, 1, 4], [1, 3, 4], [3, 0, 4], [2, 0, 5], [1, 2, 5], [3, 1, 5], [0, 3, 5]]
    elif name == "cube":
        pts = [[0, 0, 0], [1, 0, 0], [1, 1, 0], [0, 1, 0], [0, 0, 1], [1, 0, 1], [1, 1, 1], [0, 1, 1]]
        faces = [[0, 3, 2, 1], [4, 5, 6, 7], [0, 1, 5, 4], [1, 2, 6, 5], [2, 3, 7, 6], [3, 0, 4, 7]]
    elif name == "icosa":
        t = (1 + 5 ** 0.5) / 2
        pts = [[-1, t, 0], [1, t, 0], [-1, -t, 0], [1, -t, 0], [0, -1, t], [0, 1, t], [0, -1, -t], [0, 1, -t],
               [t, 0, -1], [t, 0, 1], [-t, 0, -1], [-t, 0, 1]]
        faces = [[0, 11, 5], [0, 5, 1], [0, 1, 7], [0, 7, 10], [0, 10, 11], [1, 5, 9], [5, 11, 4], [11, 10, 2], [10, 7, 6],
                 [7, 1, 8], [3, 9, 4], [3, 4, 2], [3, 2, 6], [3, 6, 8], [3, 8, 9], [4, 9, 5], [2, 4, 11], [6, 2, 10], [8, 6, 7], [9, 8, 1]]
    elif name == "prism":
        pts = [[math.cos(2 * math.pi * i / n), math.sin(2 * math.pi * i / n), 0.0] for i in range(n)] + \
              [[math.cos(2 * math.pi * i / n), math.sin(2 * math.pi * i / n), 1.0] for i in range(n)]
        faces = [list(range(n - 1, -1, -1)), list(range(n, 2 * n))]
        for i in range(n):
            j = (i + 1) % n
            faces.append([i, j, n + j, n + i])
    elif name == "pyramid":
        pts = [[math.cos(2 * math.pi * i / n), math.sin(2 * math.pi * i / n), 0.0] for i in range(n)] + [[0, 0, 1.0]]
        faces = [list(range(n - 1, -1, -1))] + [[i, (i + 1) % n, n] for i in range(n)]
    elif name == "bipyramid":
        pts = [[math.cos(2 * math.pi * i / n), math.sin(2 * math.pi * i / n), 0.0] for i in range(n)] + [[0, 0, 1.0], [0, 0, -1.0]]
        faces = [[i, (i + 1) % n, n] for i in range(n)] + [[(i + 1) % n, i, n + 1] for i in range(n)]
    else:
        raise ValueError(name)
    return [[float(x) for x in p] for p in pts], faces


def fan(n, closed=True):
    """n triangles around apex 0; closed ring or open fan"""
    m = n if closed else n + 1
    pts = [[0.0, 0.0, 0.3]] + [[math.cos(2 * math.pi * i / (n + (0 if closed else 2))), math.sin(2 * math.pi * i / (n + (0 if closed else 2))), 0.0] for i in range(m)]
    faces = [[0, 1 + i, 1 + (i + 1) % m] for i in range(n)]
    return pts, faces


def ngon(n):
    pts = [[math.cos(2 * math.pi * i / n), math.sin(2 * math.pi * i / n), 0.0] for i in range(n)]
    return pts, [list(range(n))]


# ------------------------------------------------------------------------------ modifiers
def compact(pts, faces):
    used = sorted({v for f in faces for v in f})
    m = {v: i for i, v in enumerate(used)}
    return [pts[v] for v in used], [[m[v] for v in f] for f in faces]


def delete_faces(pts, faces, rng, k):
    faces = list(faces)
    for _ in range(k):
        if len(faces) <= 1:
            break
        i = rng.below(len(faces))
        cand = faces[:i] + faces[i + 1:]
        p2, f2 = compact(pts, cand)
        if is_oriented_manifold(len(p2), f2):
            faces = cand
    return compact(pts, faces)


def fan_split(pts, faces, rng):
    i = rng.below(len(faces))
    f = faces[i]
    c = [sum(pts[v][k] for v in f) / len(f) for k in range(3)]
    nv = len(pts)
    new = [[f[j], f[(j + 1) % len(f)], nv] for j in range(len(f))]
    return pts + [c], faces[:i] + new + faces[i + 1:]


def merge_two_faces(pts, faces, rng):
    """merge two faces sharing exactly one edge into one polygon (keeps orientation)"""
    he = {}
    for fi, f in enumerate(faces):
        for j in range(len(f)):
            he[(f[j], f[(j + 1) % len(f)])] = (fi, j)
    cands = [(a, b) for (a, b) in he if (b, a) in he and a < b]
    rng.shuffle(cands)
    for a, b in cands[:6]:
        f1, j1 = he[(a, b)]
        f2, j2 = he[(b, a)]
        if f1 == f2:
            continue
        F1, F2 = faces[f1], faces[f2]
        if len(set(F1) & set(F2)) != 2:
            continue
        # F1 = ... a b ...; F2 = ... b a ...; polygon: F1 from b around to a, then F2 from a around to b (exclusive)
        r1 = [F1[(j1 + 1 + k) % len(F1)] for k in range(len(F1))]  # starts at b, ends at a
        r2 = [F2[(j2 + 1 + k) % len(F2)] for k in range(len(F2))]  # starts at a, ends at b
        poly = r1 + r2[1:-1]
        nf = [f for k, f in enumerate(faces) if k not in (f1, f2)] + [poly]
        p2, f2_ = compact(pts, nf)
        if is_oriented_manifold(len(p2), f2_):
            return p2, f2_
    return pts, faces


def disjoint_union(parts):
    pts, faces = [], []
    for k, (p, f) in enumerate(parts):
        off = len(pts)
        pts += [[x + 5.0 * k, y, z] for x, y, z in p]
        faces += [[v + off for v in ff] for ff in f]
    return pts, faces


def flip(pts, faces):
    return pts, [list(reversed(f)) for f in faces]


def renumber(pts, faces, rng):
    n = len(pts)
    perm = list(range(n))
    rng.shuffle(perm)  # old -> new
    npts = [None] * n
    for old, new in enumerate(perm):
        npts[new] = pts[old]
    return npts, [[perm[v] for v in f] for f in faces]


def shuffle_faces(pts, faces, rng):
    faces = list(faces)
    rng.shuffle(faces)
    return pts, faces


def rotate_faces(pts, faces, rng):
    out = []
    for f in faces:
        k = rng.below(len(f))
        out.append(f[k:] + f[:k])
    return pts, out


def connected_sum(A, B, rng):
    """glue two closed surfaces along a removed face of equal arity (genus adds up)"""
    (pa, fa), (pb, fb) = A, B
    for _ in range(6):
        ia = rng.below(len(fa))
        cb = [i for i, f in enumerate(fb) if len(f) == len(fa[ia])]
        if not cb:
            continue
        ib = rng.choice(cb)
        Fa, Fb = fa[ia], fb[ib]
        n = len(Fa)
        off = len(pa)
        # identify Fb[k] with Fa[-k] (reversed loop) so that orientations match across the seam
        ident = {Fb[k] + off: Fa[(-k) % n] for k in range(n)}
        pts = pa + [[x + 4.0, y, z] for x, y, z in pb]
        faces = [f for i, f in enumerate(fa) if i != ia]
        for i, f in enumerate(fb):
            if i == ib:
                continue
            faces.append([ident.get(v + off, v + off) for v in f])
        p2, f2 = compact(pts, faces)
        if is_oriented_manifold(len(p2), f2):
            return p2, f2
    return A


def jitter(pts, rng, amp=0.05):
    return [[x + amp * (rng.random() - 0.5), y + amp * (rng.random() - 0.5), z + amp * (rng.random() - 0.5)] for x, y, z in pts]


# ------------------------------------------------------------------------------ top level
def gen_base(rng, size, kinds=None, tri_only=False):
    """one connected base surface of roughly `size` faces"""
    kinds = kinds or ["grid", "grid", "holes", "cylinder", "torus", "solid", "fan", "ngon", "sum"]
    k = rng.choice(kinds)
    fk = "tri" if tri_only else rng.choice(["tri", "quad", "mixed"])
    if k in ("grid", "holes"):
        nx = rng.randint(1, max(1, min(7, size // 2)))
        ny = rng.randint(1, max(1, min(7, size // max(nx, 1))))
        p, f = grid(nx, ny, fk, rng)
        if k == "holes" and len(f) > 3:
            p, f = delete_faces(p, f, rng, rng.randint(1, max(1, len(f) // 3)))
        return p, f
    if k == "cylinder":
        nx = rng.randint(3, max(3, min(8, size // 2)))
        ny = rng.randint(1, max(1, min(4, size // nx)))
        return grid(nx, ny, fk, rng, periodic_x=True)
    if k == "torus":
        nx = rng.randint(3, 5)
        ny = rng.randint(3, 5 if size >= 25 else 3)
        return grid(nx, ny, fk, rng, periodic_x=True, periodic_y=True)
    if k == "solid":
        name = rng.choice(["tetra", "octa", "icosa"] if tri_only else ["tetra", "octa", "cube", "icosa", "prism", "pyramid", "bipyramid"])
        n = rng.randint(3, 8)
        if tri_only and name in ("prism", "pyramid"):
            name = "bipyramid"
        return solid(name, n)
    if k == "fan":
        closed = rng.chance(0.5)
        return fan(rng.randint(3 if closed else 1, 10), closed)
    if k == "ngon":
        return ngon(3 if tri_only else rng.randint(3, 9))
    if k == "sum":
        closed_kinds = ["torus", "solid"]
        A = gen_base(rng, size, closed_kinds, tri_only)
        B = gen_base(rng, size, closed_kinds, tri_only)
        return connected_sum(A, B, rng)
    raise ValueError(k)


def gen_surface(rng, size=30, tri_only=False, allow_union=True, scramble=True):
    """Random oriented manifold polygon surface (validated)."""
    for _attempt in range(20):
        if allow_union and rng.chance(0.15):
            parts = [gen_base(rng, max(4, size // 2), None, tri_only) for _ in range(rng.randint(2, 3))]
            p, f = disjoint_union(parts)
        else:
            p, f = gen_base(rng, size, None, tri_only)
        # modifiers
        for _ in range(rng.below(3)):
            m = rng.choice(["del", "fan", "merge", "none"])
            if m == "del" and len(f) > 2:
                p, f = delete_faces(p, f, rng, 1)
            elif m == "fan":
                p2, f2 = fan_split(p, f, rng)
                if is_oriented_manifold(len(p2), f2):
                    p, f = p2, f2
            elif m == "merge" and not tri_only:
                p, f = merge_two_faces(p, f, rng)
        if tri_only:
            f = triangulate_faces(f)
        if rng.chance(0.3):
            p, f = flip(p, f)
        if scramble:
            if rng.chance(0.6):
                p, f = renumber(p, f, rng)
            if rng.chance(0.6):
                p, f = shuffle_faces(p, f, rng)
            if rng.chance(0.6):
                p, f = rotate_faces(p, f, rng)
        p = jitter(p, rng, 0.04)
        if is_oriented_manifold(len(p), f) and len(f) <= max(size * 3, 12):
            return p, f
    p, f = grid(2, 2, "tri" if tri_only else "quad", rng)
    return p, f


def triangulate_faces(faces):
    out = []
    for f in faces:
        for k in range(1, len(f) - 1):
            out.append([f[0], f[k], f[k + 1]])
    return out


def drop_chunks(n, singles_up_to=48):
    """(lo, hi) index ranges to try removing from a list of n elements: halves, quarters, eighths, then single elements"""
    seen = set()
    for parts in (2, 4, 8):
        if n >= parts:
            step = n // parts
            for i in range(parts):
                lo, hi = i * step, (n if i == parts - 1 else (i + 1) * step)
                if (lo, hi) not in seen and 0 < hi - lo < n:
                    seen.add((lo, hi))
                    yield lo, hi
    if n <= singles_up_to:
        for i in range(n):
            if (i, i + 1) not in seen and n > 1:
                yield i, i + 1


def compact_with_map(pts, elems):
    used = sorted({v for f in elems for v in f})
    m = {v: i for i, v in enumerate(used)}
    return [pts[v] for v in used], [[m[v] for v in f] for f in elems], m
