"""Self-test of ref_codecs.  Run:  /venv/bin/python /verif/models/test_ref_codecs.py

(a) write -> read round trips over hand-made meshes under every subset of the legal perturbations
(b) literal files typed by hand from the format definitions, and malformed files that must be refused
(c) INFORMATIONAL cross-check against mouette (prints disagreements, asserts nothing)
"""
import itertools
import os
import shutil
import struct
import sys
import tempfile
import warnings

sys.path.insert(0, os.path.dirname(os.path.abspath(__file__)))
import ref_codecs as rc  # noqa: E402

CHECKS = [0]


def check(cond, msg):
    CHECKS[0] += 1
    if not cond:
        raise AssertionError(msg)


def raises(exc, fn, *a, **k):
    CHECKS[0] += 1
    try:
        fn(*a, **k)
    except exc:
        return
    raise AssertionError("%s not raised by %s%r%r" % (exc.__name__, getattr(fn, "__name__", fn), a, k))


# ---------------------------------------------------------------------------------------------------
# hand-made meshes
# ---------------------------------------------------------------------------------------------------

WEIRD = [[-1e-300, 1e300, 0.1], [1 / 3, -0.0, 5e-324], [1.7976931348623157e308, -2.2250738585072014e-308, 123456789.12345679],
         [3.0, -7.0, 2.5e-5], [1e22, 1e23, 1e-7], [0.30000000000000004, 2 / 3, -1 / 7]]
MILD = [[0.0, 0.0, 0.0], [1.0, 0.0, 0.0], [1.0, 1.0, 0.0], [0.0, 1.0, 0.0],
        [0.0, 0.0, 1.0], [1.0, 0.0, 1.0], [1.0, 1.0, 1.0], [0.0, 1.0, 1.0],
        [0.1, 1 / 3, 2.0], [-0.25, 1e-3, 2.0], [16777217.0, -1e-40, 3.0e38], [0.5, 0.5, 3.0]]

MESHES = {
    "empty": {},
    "cloud_weird": {"vertices": WEIRD},
    "polyline": {"vertices": MILD[:5], "edges": [[0, 1], [1, 2], [2, 3], [4, 3], [3, 0]]},
    "tri": {"vertices": MILD[:4], "faces": [[0, 1, 2], [2, 3, 0]]},
    "tri_weird": {"vertices": WEIRD, "faces": [[0, 1, 2], [5, 4, 3], [2, 1, 5]]},
    "quad": {"vertices": MILD[:8], "faces": [[0, 1, 2, 3], [4, 7, 6, 5], [0, 4, 5, 1]]},
    "mixed": {"vertices": MILD[:9], "faces": [[0, 1, 2, 3], [4, 5, 6], [4, 7, 6, 5], [8, 0, 1], [2, 3, 7, 6]]},
    "penta": {"vertices": MILD[:10], "faces": [[0, 1, 2, 3, 8], [4, 5, 6], [9, 8, 7, 6, 5, 4], [0, 1, 5, 4]]},
    "tri_edges": {"vertices": MILD[:4], "edges": [[2, 0], [0, 1]], "faces": [[0, 1, 2], [2, 3, 0]]},
    "tets": {"vertices": MILD[:5] + [[0.3, 0.3, -1.0]], "cells": [[0, 1, 2, 4], [2, 1, 0, 5], [0, 2, 3, 4]]},
    "hexes": {"vertices": MILD[:8] + [[2.0, 0.0, 0.0], [2.0, 1.0, 0.0], [2.0, 0.0, 1.0], [2.0, 1.0, 1.0]],
              "cells": [[0, 1, 2, 3, 4, 5, 6, 7], [1, 8, 9, 2, 5, 10, 11, 6]]},
    "tet_hex": {"vertices": MILD, "cells": [[0, 1, 2, 4], [0, 1, 2, 3, 4, 5, 6, 7], [8, 9, 10, 11]]},
    "everything": {"vertices": MILD, "edges": [[0, 1], [5, 4]],
                   "faces": [[0, 1, 2], [0, 1, 2, 3], [4, 5, 6, 7, 8], [9, 10, 11]],
                   "cells": [[0, 1, 2, 4], [0, 1, 2, 3, 4, 5, 6, 7]]},
    "prism_pyramid": {"vertices": MILD, "cells": [[0, 1, 2, 4, 5, 6], [0, 1, 2, 3, 8], [0, 1, 2, 4]]},
    "stl_friendly": {"vertices": [[0.5, -0.25, 3.0], [1e-3, 16777216.0, -0.1], [1 / 3, 2.0, 1e-40], [7.0, 8.0, 9.0]],
                     "faces": [[0, 1, 2], [2, 1, 3], [3, 0, 2]]},
}

ATTR_MESH = {
    "vertices": MILD[:9],
    "edges": [[0, 1], [1, 2]],
    "faces": [[0, 1, 2, 3], [4, 5, 6], [4, 7, 6, 5]],
    "cells": [[0, 1, 2, 4], [0, 1, 2, 3, 4, 5, 6, 7]],
    "attributes": {
        "vertices": {
            "temperature": {"type": "float", "arity": 1, "values": [0.1 * i - 1 / 3 for i in range(9)]},
            "uv": {"type": "float", "arity": 2, "values": [[i / 7, -1e-300 * i] for i in range(9)]},
            "selected": {"type": "bool", "arity": 1, "values": [i % 3 == 0 for i in range(9)]},
            "name with space \"and quote\" \\": {"type": "int", "arity": 1, "values": list(range(-4, 5))},
        },
        "edges": {"hard": {"type": "bool", "arity": 2, "values": [[True, False], [False, False]]}},
        "faces": {"region": {"type": "int", "arity": 1, "values": [7, -2147483648, 2147483647]}},
        "face_corners": {"tex": {"type": "float", "arity": 3, "values": [[float(i), i / 3, -i * 1e300] for i in range(11)]}},
        "cells": {"mat": {"type": "int", "arity": 2, "values": [[1, 2], [3, 4]]}},
        "cell_corners": {"cc": {"type": "float", "arity": 1, "values": [i + 0.5 for i in range(12)]}},
        "cell_faces": {"bc": {"type": "int", "arity": 1, "values": list(range(100, 110))},
                       "bf": {"type": "bool", "arity": 2, "values": [[i % 2 == 0, i % 3 == 0] for i in range(10)]}},
    },
}
ATTR_TETS = {
    "vertices": MILD[:5], "cells": [[0, 1, 2, 4], [0, 2, 3, 4]],
    "attributes": {"cell_faces": {"bc": {"type": "int", "arity": 1, "values": [1, 2, 3, 4, 5, 6, 7, 8]}},
                   "cells": {"q": {"type": "float", "arity": 1, "values": [0.25, 1 / 3]}}},
}


# ---------------------------------------------------------------------------------------------------
# expected result of pushing a mesh through a format, written independently of rc.project
# ---------------------------------------------------------------------------------------------------

def expected(fmt, mesh):
    V = [[float(c) for c in p] for p in mesh.get("vertices", [])]
    E = [list(e) for e in mesh.get("edges", [])]
    F = [list(f) for f in mesh.get("faces", [])]
    C = [list(c) for c in mesh.get("cells", [])]
    A = mesh.get("attributes", {})
    e = {"vertices": V, "edges": [], "faces": [], "cells": [], "attributes": {}}
    if fmt == "obj":
        e["edges"], e["faces"] = E, F
    elif fmt == "mesh":
        e["edges"] = E
        e["faces"] = [f for f in F if len(f) == 3] + [f for f in F if len(f) == 4]
        e["cells"] = [c for c in C if len(c) == 4] + [c for c in C if len(c) == 8]
    elif fmt == "off":
        e["faces"] = F
    elif fmt == "tet":
        e["cells"] = [c for c in C if len(c) in (4, 8)]  # the "<m> tets" dialect of mouette / Geogram also carries 8-vertex records
    elif fmt == "xyz":
        pass
    elif fmt == "stl":
        r = lambda x: struct.unpack("<f", struct.pack("<f", x))[0]
        e["vertices"] = [[r(c) for c in V[i]] for f in F if len(f) == 3 for i in f]
        e["faces"] = [[3 * k, 3 * k + 1, 3 * k + 2] for k in range(len(e["vertices"]) // 3)]
    elif fmt == "geogram_ascii":
        e["edges"], e["faces"], e["cells"] = E, F, C
        e["attributes"] = {s: {n: {"type": a["type"], "arity": a["arity"], "values": a["values"]} for n, a in d.items()}
                           for s, d in A.items()}
    return e


def subsets(names):
    for k in range(len(names) + 1):
        for c in itertools.combinations(names, k):
            yield {n: True for n in c}


def stl_ok(mesh):
    """every coordinate that a triangle uses fits in a float32"""
    try:
        for f in mesh.get("faces", []):
            if len(f) == 3:
                for i in f:
                    for c in mesh["vertices"][i]:
                        struct.pack("<f", c)
    except OverflowError:
        return False
    return True


def test_roundtrip():
    n = 0
    for fmt in rc.FORMATS:
        for name, mesh in MESHES.items():
            if fmt == "stl" and not stl_ok(mesh):
                raises(ValueError, rc.write, "stl", mesh, lossy=True)
                raises(ValueError, rc.project, "stl", mesh)
                continue
            exp = expected(fmt, mesh)
            check(rc.same(rc.project(fmt, mesh), exp), "project(%s, %s) disagrees with the test's expectation" % (fmt, name))
            base = [{}]
            if fmt == "stl":
                base = [{"ascii": False}, {"ascii": True}, {"ascii": True, "normals": "zero"}, {"normals": "zero"}]
            elif fmt == "obj":
                base = [{}, {"face_style": "v/vt"}, {"face_style": "v//vn"}, {"face_style": "v/vt/vn", "relative_indices": True},
                        {"relative_indices": True, "polylines": True}, {"polylines": True}]
            elif fmt == "mesh":
                base = [{}, {"count_same_line": True, "ref": 7}, {"version": 1, "ref": -3}]
            elif fmt == "off":
                base = [{}, {"counts_on_header_line": True, "nedges": 5}]
            elif fmt == "geogram_ascii":
                base = [{}, {"adjacency": False}]
            for b in base:
                perts = list(subsets(rc.LEGAL_PERTURBATIONS[fmt]))
                if fmt == "stl" and not b.get("ascii"):
                    perts = [{}]
                for p in perts:
                    for seed in (0, 1):
                        opts = dict(b)
                        opts.update(p)
                        data = rc.write(fmt, mesh, lossy=True, seed=seed, **opts)
                        check(isinstance(data, bytes), "write returns bytes")
                        got = rc.read(fmt, data)
                        check(rc.same(got, exp), "round trip %s / %s / %r:\n got %r\n exp %r\n file %r"
                              % (fmt, name, opts, rc.core(got), exp, data[:600]))
                        _check_lexical(fmt, data, opts, bool(exp["vertices"]))
                        n += 1
    print("(a) %d write->read round trips bit-exact" % n)


def _check_lexical(fmt, data, opts, has_vertices):
    """the perturbations asked for are really in the bytes"""
    if fmt == "stl" and not opts.get("ascii"):
        return
    if not data:
        return
    if opts.get("crlf"):
        check(b"\n" not in data.replace(b"\r\n", b""), "crlf: bare LF left")
    else:
        check(b"\r" not in data, "unexpected CR")
    if opts.get("no_final_newline"):
        check(not data.endswith(b"\n"), "final newline present")
    else:
        check(data.endswith(b"\n"), "final newline missing")
    if opts.get("comments") and data.count(b"\n") > 3:
        check(b"#" in data, "no comment written")
    if not opts.get("comments"):
        check(b"#" not in data, "unexpected comment")
    if opts.get("exp_floats") and has_vertices and (fmt != "stl" or opts.get("ascii")):
        check(b"e+" in data or b"e-" in data, "no exponent notation")
    if opts.get("trailing_ws"):
        ls = [l for l in data.replace(b"\r\n", b"\n").split(b"\n") if l]
        check(all(l[-1:] in (b" ", b"\t") for l in ls), "no trailing white space")


def test_attributes():
    n = 0
    for mesh in (ATTR_MESH, ATTR_TETS):
        exp = expected("geogram_ascii", mesh)
        for opts in ({}, {"exp_floats": True}, {"adjacency": False}):
            data = rc.write("geogram_ascii", mesh, **opts)
            got = rc.read("geogram_ascii", data)
            check(rc.same(got, exp), "geogram attribute round trip %r:\n got %r\n exp %r" % (opts, rc.core(got), exp))
            n += 1
    # geogram type names survive as an annotation
    got = rc.read("geogram_ascii", rc.write("geogram_ascii", ATTR_MESH))
    check(got["attributes"]["vertices"]["uv"]["geogram_type"] == "double", "geogram_type annotation")
    check(got["attributes"]["faces"]["region"]["geogram_type"] == "int", "geogram_type annotation")
    # padded cell facets: 12 slots for a tet + a hex
    check(got["extra"]["sets"]["GEO::Mesh::cell_facets"] == 12, "cell facets are padded to the cell_ptr slots")
    # adjacency of two tets glued on face {0,2,4}
    got = rc.read("geogram_ascii", rc.write("geogram_ascii", ATTR_TETS))
    # cell 0 = (0,1,2,4): local facet 1 = (v0,v2,v3) = (0,2,4) ; cell 1 = (0,2,3,4): local facet 2 = (v3,v1,v0) = (4,2,0)
    check(got["extra"]["adjacency"]["adjacent_cell"] == [-1, 1, -1, -1, -1, -1, 0, -1], "tet adjacency %r" % got["extra"]["adjacency"])
    # a str attribute is refused, or dropped when lossy
    m = {"vertices": MILD[:2], "attributes": {"vertices": {"label": {"type": "str", "arity": 1, "values": ["a", "b"]}}}}
    raises(ValueError, rc.write, "geogram_ascii", m)
    check(rc.read("geogram_ascii", rc.write("geogram_ascii", m, lossy=True))["attributes"] == {}, "str attribute dropped")
    raises(ValueError, rc.write, "geogram_ascii", {"vertices": MILD[:2], "attributes": {"vertices": {"a": {"type": "int", "arity": 1, "values": [1]}}}})
    raises(ValueError, rc.write, "geogram_ascii", {"vertices": MILD[:1], "attributes": {"vertices": {"a": {"type": "int", "arity": 1, "values": [1.5]}}}})
    print("(a) %d geogram attribute round trips bit-exact" % n)


def test_refusals():
    ev = MESHES["everything"]
    for fmt in ("obj", "mesh", "off", "tet", "xyz", "stl"):
        raises(ValueError, rc.write, fmt, ev)
        rc.write(fmt, ev, lossy=True)
    raises(ValueError, rc.write, "mesh", MESHES["penta"])
    raises(ValueError, rc.write, "stl", MESHES["quad"])
    raises(ValueError, rc.write, "stl", {"vertices": MILD[:4], "faces": [[0, 1, 2]]})  # isolated vertex
    raises(ValueError, rc.write, "obj", {"vertices": [[float("nan"), 0, 0]]})
    raises(ValueError, rc.write, "obj", {"vertices": [[float("inf"), 0, 0]]})
    raises(ValueError, rc.write, "obj", {"vertices": [[0, 0]]})
    raises(ValueError, rc.write, "obj", {"vertices": MILD[:3], "faces": [[0, 1]]})
    raises(ValueError, rc.write, "geogram_ascii", MESHES["tri"], crlf=True)
    raises(ValueError, rc.write, "geogram_ascii", MESHES["tri"], comments=True)
    raises(ValueError, rc.write, "tet", MESHES["tets"], comments=True)
    raises(ValueError, rc.write, "xyz", MESHES["cloud_weird"], blank_lines=True)
    raises(ValueError, rc.write, "stl", MESHES["stl_friendly"], crlf=True)  # binary
    raises(TypeError, rc.write, "obj", MESHES["tri"], bogus=True)
    raises(ValueError, rc.write, "nope", MESHES["tri"])
    raises(ValueError, rc.read, "nope", b"")
    for fmt in rc.FORMATS:
        check(set(rc.LEGAL_PERTURBATIONS[fmt]) <= set(rc.PERTURBATIONS), "perturbation names")
        check(fmt in rc.EXPRESSIBLE, "vocabulary table")
    import json
    json.dumps(rc.EXPRESSIBLE)
    print("(a) refusals ok")


# ---------------------------------------------------------------------------------------------------
# (b) literal files
# ---------------------------------------------------------------------------------------------------

def eq(got, **exp):
    for k, v in exp.items():
        check(got[k] == v, "%s: got %r expected %r" % (k, got[k], v))


def test_literals():
    # ---- OBJ
    obj = b"""# a comment
mtllib foo.mtl
o thing
v 0 0 0
v 1 0 0   # inline comment
v 1 1 0 1.0
v 0 1 0 0.5 0.5 0.5

vt 0 0
vt 1 0
vn 0 0 1
g grp
usemtl m
s off
f 1/1/1 2/2/1 3/1/1
f 1//1 3//1 4//1
f -4 -3 -2 -1
f 1/1 2/2 \\
  3/1 4/2
v 2.5e0 -2 +2
f -1 1 2
l 1 2 3
l -1 1
p 1
"""
    for data in (obj, obj.replace(b"\n", b"\r\n"), obj.rstrip(b"\n")):
        eq(rc.read("obj", data),
           vertices=[[0, 0, 0], [1, 0, 0], [1, 1, 0], [0, 1, 0], [2.5, -2, 2]],
           faces=[[0, 1, 2], [0, 2, 3], [0, 1, 2, 3], [0, 1, 2, 3], [4, 0, 1]],
           edges=[[0, 1], [1, 2], [4, 0]], cells=[])
    # negative indices are relative to the vertices defined *so far*
    eq(rc.read("obj", b"v 0 0 0\nv 1 0 0\nv 0 1 0\nf -1 -2 -3\nv 5 5 5\nf -1 -2 -3\n"), faces=[[2, 1, 0], [3, 2, 1]])
    raises(rc.FormatError, rc.read, "obj", b"v 0 0 0\nv 1 0 0\nv 0 1 0\nf 0 1 2\n")  # index 0
    raises(rc.FormatError, rc.read, "obj", b"v 0 0 0\nv 1 0 0\nv 0 1 0\nf 1 2 4\n")  # out of range
    raises(rc.FormatError, rc.read, "obj", b"v 0 0 0\nv 1 0 0\nf -1 -2 -3\n")  # before the first vertex
    raises(rc.FormatError, rc.read, "obj", b"v 0 0\n")
    raises(rc.FormatError, rc.read, "obj", b"v 0 0 0\nv 1 0 0\nf 1 2\n")
    raises(rc.FormatError, rc.read, "obj", b"v 0 0 0\nv 1 0 0\nv 1 1 1\nf 1/ 2/x 3\n")
    raises(rc.FormatError, rc.read, "obj", b"v 0 0 zero\n")

    # ---- Medit
    medit = b"""MeshVersionFormatted 2
# comment
Dimension
3
Vertices 5
0 0 0 1
1 0 0 2
0 1 0 3
0 0 1 4
1.5e0 -2.5E-1 +3 0
Edges
1
1 2 9
Triangles
2
1 2 3 5
2 3 4 6
Quadrilaterals 1 1 2 3 4 0
Tetrahedra
1
1 2 3 4 7

Corners
1
1
Normals
1
0 0 1
Hexahedra
0
End
garbage after End 1 2 3
"""
    for data in (medit, medit.replace(b"\n", b"\r\n")):
        got = rc.read("mesh", data)
        eq(got, vertices=[[0, 0, 0], [1, 0, 0], [0, 1, 0], [0, 0, 1], [1.5, -0.25, 3]], edges=[[0, 1]],
           faces=[[0, 1, 2], [1, 2, 3], [0, 1, 2, 3]], cells=[[0, 1, 2, 3]])
        check(got["extra"]["refs"] == {"Vertices": [1, 2, 3, 4, 0], "Edges": [9], "Triangles": [5, 6],
                                       "Quadrilaterals": [0], "Tetrahedra": [7]}, "medit refs %r" % got["extra"]["refs"])
    hexa = b"MeshVersionFormatted 1\nDimension 3\nVertices\n8\n" + b"".join(
        b"%d %d %d 0\n" % (i & 1, (i >> 1) & 1, (i >> 2) & 1) for i in range(8)) + b"Hexahedra\n1\n1 2 4 3 5 6 8 7 1\nEnd"
    eq(rc.read("mesh", hexa), cells=[[0, 1, 3, 2, 4, 5, 7, 6]], faces=[])
    eq(rc.read("mesh", b"MeshVersionFormatted 1 Dimension 2 Vertices 3 0 0 0 1 0 0 0 1 0 Triangles 1 1 2 3 0 End"),
       vertices=[[0, 0, 0], [1, 0, 0], [0, 1, 0]], faces=[[0, 1, 2]])
    eq(rc.read("mesh", b"MeshVersionFormatted 1\nDimension 3\nVertices\n1\n1 2 3 0\n"), vertices=[[1, 2, 3]])  # no End
    raises(rc.FormatError, rc.read, "mesh", b"Dimension 3\nVertices\n0\nEnd\n")
    raises(rc.FormatError, rc.read, "mesh", b"MeshVersionFormatted 1\nDimension 3\nVertices\n2\n0 0 0 0\nEnd\n")
    raises(rc.FormatError, rc.read, "mesh", b"MeshVersionFormatted 1\nDimension 3\nVertices\n3\n0 0 0 0\n1 0 0 0\n0 1 0 0\nTriangles\n1\n0 1 2 0\nEnd\n")
    raises(rc.FormatError, rc.read, "mesh", b"MeshVersionFormatted 1\nDimension 3\nVertices\n3\n0 0 0 0\n1 0 0 0\n0 1 0 0\nTriangles\n1\n1 2 4 0\nEnd\n")
    raises(rc.FormatError, rc.read, "mesh", b"MeshVersionFormatted 1\nDimension 3\nVertices\n3\n0 0 0 0\n1 0 0 0\n0 1 0 0\nTriangles\n1\n1 2 3\nEnd\n")
    raises(rc.FormatError, rc.read, "mesh", b"MeshVersionFormatted 1\nDimension 3\nFoo\n0\nEnd\n")

    # ---- OFF
    off1 = b"""# leading comment
OFF 4 2 0   # counts on the header line
0 0 0
1 0 0 # c
1 1 0

0 1 0
3 0 1 2  255 0 0
4  0 1 2 3
"""
    off2 = b"OFF\r\n# c\r\n\r\n4 2 5\r\n0 0 0\r\n1 0 0\r\n1 1 0\r\n0 1 0\r\n3 0 1 2 0.5 0.5 0.5 1.0\r\n4 0 1 2 3"
    off3 = b"OFF 4 2 0 0 0 0 1 0 0 1 1 0 0 1 0 3 0 1 2\n4 0 1 2 3\n"  # free format
    coff = b"COFF\n4 2 0\n0 0 0 255 0 0 255\n1 0 0 0 255 0 255\n1 1 0 0 0 255 255\n0 1 0 9 9 9 9\n3 0 1 2\n4 0 1 2 3\n"
    for data in (off1, off2, off3, coff):
        eq(rc.read("off", data), vertices=[[0, 0, 0], [1, 0, 0], [1, 1, 0], [0, 1, 0]], faces=[[0, 1, 2], [0, 1, 2, 3]],
           edges=[], cells=[])
    eq(rc.read("off", b"OFF\n5 1 0\n0 0 0\n1 0 0\n1 1 0\n0 1 0\n-1 .5 0\n5 4 0 1 2 3\n"), faces=[[4, 0, 1, 2, 3]])
    raises(rc.FormatError, rc.read, "off", b"3 1 0\n0 0 0\n1 0 0\n0 1 0\n3 0 1 2\n")  # no header
    raises(rc.FormatError, rc.read, "off", b"OFF\n3 1 0\n0 0 0\n1 0 0\n0 1 0\n3 1 2 3\n")  # 1-based
    raises(rc.FormatError, rc.read, "off", b"OFF\n3 2 0\n0 0 0\n1 0 0\n0 1 0\n3 0 1 2\n")  # missing face
    raises(rc.FormatError, rc.read, "off", b"OFF\n3 1 0\n0 0 0\n1 0 0\n0 1 0\n3 0 1 2\n3 0 1 2\n")  # extra face
    raises(rc.FormatError, rc.read, "off", b"OFF\n3 1 0\n0 0 0\n1 0 0\n0 1 0\n2 0 1\n")

    # ---- tet
    tet = b"4 vertices\n1 tets\n0 0 0\n1 0 0\n0 1 0\n0 0 1e0\n4 0 1 2 3\n"
    for data in (tet, tet.replace(b"\n", b" \r\n"), tet.rstrip()):
        eq(rc.read("tet", data), vertices=[[0, 0, 0], [1, 0, 0], [0, 1, 0], [0, 0, 1]], cells=[[0, 1, 2, 3]], faces=[], edges=[])
    raises(rc.FormatError, rc.read, "tet", b"4 vertices\n1 tets\n0 0 0\n1 0 0\n0 1 0\n0 0 1\n4 1 2 3 4\n")
    raises(rc.FormatError, rc.read, "tet", b"4 vertices\n2 tets\n0 0 0\n1 0 0\n0 1 0\n0 0 1\n4 0 1 2 3\n")
    raises(rc.FormatError, rc.read, "tet", b"4 vertices\n1 tets\n0 0 0\n1 0 0\n0 1 0\n0 0 1\n3 0 1 2\n")
    raises(rc.FormatError, rc.read, "tet", b"4 tets\n1 vertices\n")

    # ---- xyz
    eq(rc.read("xyz", b"0 0 0\n1.5 -2 3e2\n"), vertices=[[0, 0, 0], [1.5, -2, 300]])
    eq(rc.read("xyz", b"# x y z nx ny nz\n0 0 0 0 0 1\r\n\r\n1 2 3 1 0 0"), vertices=[[0, 0, 0], [1, 2, 3]])
    eq(rc.read("xyz", b"2\n0 0 0\n1 2 3\n"), vertices=[[0, 0, 0], [1, 2, 3]])
    eq(rc.read("xyz", b""), vertices=[])
    raises(rc.FormatError, rc.read, "xyz", b"3\n0 0 0\n1 2 3\n")
    raises(rc.FormatError, rc.read, "xyz", b"0 0\n")
    raises(rc.FormatError, rc.read, "xyz", b"C 0 0 0\n")

    # ---- STL ascii
    stla = b"""solid some name with words
  facet normal 0 0 1
    outer loop
      vertex 0 0 0
      vertex 1.0e+00 0 0
      vertex 0 1 0
    endloop
  endfacet
 facet normal 0.0 0.0 -1.0
 outer loop
 vertex 0 0 0.1
 vertex 0 1 0.1
 vertex 1 0 0.1
 endloop
 endfacet
endsolid some name with words
"""
    for data in (stla, stla.replace(b"\n", b"\r\n"), b" \n" + stla.rstrip()):
        got = rc.read("stl", data)
        eq(got, vertices=[[0, 0, 0], [1, 0, 0], [0, 1, 0], [0, 0, 0.1], [0, 1, 0.1], [1, 0, 0.1]], faces=[[0, 1, 2], [3, 4, 5]])
        check(got["extra"]["normals"] == [[0, 0, 1], [0, 0, -1]] and not got["extra"]["binary"], "stl ascii extra")
    eq(rc.read("stl", b"solid\nendsolid\n"), vertices=[], faces=[])
    raises(rc.FormatError, rc.read, "stl", b"solid x\nfacet normal 0 0 1\nouter loop\nvertex 0 0 0\nvertex 1 0 0\nendloop\nendfacet\nendsolid x\n")
    raises(rc.FormatError, rc.read, "stl", b"hello")
    # ---- STL binary, laid out by hand; the header starts with "solid" on purpose
    binary = (b"solid but binary".ljust(80, b" ") + struct.pack("<I", 2)
              + struct.pack("<3f", 0, 0, 1) + struct.pack("<9f", 0, 0, 0, 1, 0, 0, 0, 1, 0) + b"\x00\x00"
              + struct.pack("<3f", 0, 0, 0) + struct.pack("<9f", 0.1, -2.5, 3e38, 1e-45, 0, 0, 0, 1, 0.5) + b"\x07\x00")
    check(len(binary) == 184, "binary stl size")
    got = rc.read("stl", binary)
    g = lambda x: struct.unpack("<f", struct.pack("<f", x))[0]
    eq(got, vertices=[[0, 0, 0], [1, 0, 0], [0, 1, 0], [g(0.1), -2.5, g(3e38)], [g(1e-45), 0, 0], [0, 1, 0.5]], faces=[[0, 1, 2], [3, 4, 5]])
    check(got["extra"]["binary"] and got["extra"]["attribute_byte_counts"] == [0, 7], "stl binary extra")
    raises(rc.FormatError, rc.read, "stl", binary[:-1])
    w = rc.write("stl", {"vertices": [[0, 0, 0], [2, 0, 0], [0, 3, 0]], "faces": [[0, 1, 2]]})
    check(len(w) == 134 and w[80:84] == b"\x01\x00\x00\x00" and w[84:96] == struct.pack("<3f", 0, 0, 1) and w[-2:] == b"\0\0",
          "binary stl layout / right-hand-rule unit normal")

    # ---- GEOGRAM ascii: a quad and a triangle, as GEOGRAM lays it out (one value per line) ...
    N = "4294967295"
    def chunk(*lines):
        return "\n".join(lines) + "\n"
    geo = (chunk('[HEAD]', '"GEOGRAM"', '"1.0"')
           + chunk('[CMNT]', '"a comment chunk"')
           + chunk('[ATTS]', '"GEO::Mesh::vertices"', '5')
           + chunk('[ATTR]', '"GEO::Mesh::vertices"', '"point"', '"double"', '8', '3',
                   '0', '0', '0', '1', '0', '0', '1', '1', '0', '0', '1', '0', '0.5', '2', '1e-3')
           + chunk('[ATTR]', '"GEO::Mesh::vertices"', '"w"', '"double"', '8', '2',
                   '0.5', '1.5', '2.5', '3.5', '4.5', '5.5', '6.5', '7.5', '8.5', '-9.5')
           + chunk('[ATTS]', '"GEO::Mesh::edges"', '1')
           + chunk('[ATTR]', '"GEO::Mesh::edges"', '"GEO::Mesh::edges::edge_vertex"', '"index_t"', '4', '2', '4', '0')
           + chunk('[ATTS]', '"GEO::Mesh::facets"', '2')
           + chunk('[ATTR]', '"GEO::Mesh::facets"', '"GEO::Mesh::facets::facet_ptr"', '"index_t"', '4', '1', '0', '4')
           + chunk('[ATTR]', '"GEO::Mesh::facets"', '"sel"', '"bool"', '1', '1', '1', '0')
           + chunk('[ATTS]', '"GEO::Mesh::facet_corners"', '7')
           + chunk('[ATTR]', '"GEO::Mesh::facet_corners"', '"GEO::Mesh::facet_corners::corner_vertex"', '"index_t"', '4', '1',
                   '0', '1', '2', '3', '3', '2', '4')
           + chunk('[ATTR]', '"GEO::Mesh::facet_corners"', '"GEO::Mesh::facet_corners::corner_adjacent_facet"', '"index_t"', '4', '1',
                   N, N, '1', N, '0', N, N)
           + chunk('[ATTR]', '"GEO::Mesh::facet_corners"', '"id"', '"signed_index_t"', '4', '1', '-1', '-2', '-3', '-4', '5', '6', '7'))
    want_attr = {
        "vertices": {"w": {"type": "float", "arity": 2, "values": [[0.5, 1.5], [2.5, 3.5], [4.5, 5.5], [6.5, 7.5], [8.5, -9.5]]}},
        "faces": {"sel": {"type": "bool", "arity": 1, "values": [True, False]}},
        "face_corners": {"id": {"type": "int", "arity": 1, "values": [-1, -2, -3, -4, 5, 6, 7]}},
    }
    # ... and the same file with `dimension` values per line and CRLF
    geo2 = geo.replace("0\n0\n0\n1\n0\n0\n1\n1\n0\n0\n1\n0\n0.5\n2\n1e-3\n", "0 0 0\n1 0 0\n1 1 0\n0 1 0\n0.5 2 1e-3\n")
    geo2 = geo2.replace("0.5\n1.5\n2.5\n3.5\n", "0.5 1.5\n2.5 3.5\n").replace("\n", "\r\n")
    check(geo2 != geo.replace("\n", "\r\n"), "geo2 differs")
    for data in (geo, geo2):
        got = rc.read("geogram_ascii", data.encode())
        eq(got, vertices=[[0, 0, 0], [1, 0, 0], [1, 1, 0], [0, 1, 0], [0.5, 2, 0.001]], edges=[[4, 0]],
           faces=[[0, 1, 2, 3], [3, 2, 4]], cells=[])
        check(rc.core(got)["attributes"] == want_attr, "geogram literal attributes %r" % rc.core(got)["attributes"])
        check(got["extra"]["adjacency"]["corner_adjacent_facet"] == [-1, -1, 1, -1, 0, -1, -1], "literal adjacency")
        check(got["extra"]["other_chunks"] == ["CMNT"], "other chunks")
    # our writer computes the same adjacency as typed above
    w = rc.read("geogram_ascii", rc.write("geogram_ascii", {"vertices": got["vertices"], "faces": got["faces"]}))
    check(w["extra"]["adjacency"]["corner_adjacent_facet"] == [-1, -1, 1, -1, 0, -1, -1], "writer facet adjacency")

    # triangles without facet_ptr; a hex and a tet with cell_type / cell_ptr and padded cell facets
    geo3 = (chunk('[HEAD]', '"GEOGRAM"', '"1.0"')
            + chunk('[ATTS]', '"GEO::Mesh::vertices"', '9')
            + chunk('[ATTR]', '"GEO::Mesh::vertices"', '"point"', '"double"', '8', '3',
                    *[str(c) for i in range(8) for c in (i & 1, (i >> 1) & 1, (i >> 2) & 1)] + ['0.5', '0.5', '2'])
            + chunk('[ATTS]', '"GEO::Mesh::facets"', '2')
            + chunk('[ATTS]', '"GEO::Mesh::facet_corners"', '6')
            + chunk('[ATTR]', '"GEO::Mesh::facet_corners"', '"GEO::Mesh::facet_corners::corner_vertex"', '"index_t"', '4', '1',
                    '4', '5', '8', '5', '7', '8')
            + chunk('[ATTS]', '"GEO::Mesh::cells"', '2')
            + chunk('[ATTR]', '"GEO::Mesh::cells"', '"GEO::Mesh::cells::cell_type"', '"char"', '1', '1', '1', '0')
            + chunk('[ATTR]', '"GEO::Mesh::cells"', '"GEO::Mesh::cells::cell_ptr"', '"index_t"', '4', '1', '0', '8')
            + chunk('[ATTS]', '"GEO::Mesh::cell_corners"', '12')
            + chunk('[ATTR]', '"GEO::Mesh::cell_corners"', '"GEO::Mesh::cell_corners::corner_vertex"', '"index_t"', '4', '1',
                    '0', '1', '2', '3', '4', '5', '6', '7', '4', '5', '6', '8')
            + chunk('[ATTS]', '"GEO::Mesh::cell_facets"', '12')
            + chunk('[ATTR]', '"GEO::Mesh::cell_facets"', '"GEO::Mesh::cell_facets::adjacent_cell"', '"index_t"', '4', '1', *[N] * 12)
            + chunk('[ATTR]', '"GEO::Mesh::cell_facets"', '"cf"', '"int"', '4', '1',
                    '10', '11', '12', '13', '14', '15', '0', '0', '20', '21', '22', '23'))
    got = rc.read("geogram_ascii", geo3.encode())
    eq(got, faces=[[4, 5, 8], [5, 7, 8]], cells=[[0, 1, 2, 3, 4, 5, 6, 7], [4, 5, 6, 8]], edges=[])
    check(rc.core(got)["attributes"] == {"cell_faces": {"cf": {"type": "int", "arity": 1,
                                                                 "values": [10, 11, 12, 13, 14, 15, 20, 21, 22, 23]}}}, "padded cell facet attribute")
    check(got["extra"]["adjacency"]["adjacent_cell"] == [-1] * 10, "adjacent cells")
    head = chunk('[HEAD]', '"GEOGRAM"', '"1.0"')
    v3 = chunk('[ATTS]', '"GEO::Mesh::vertices"', '3') + chunk('[ATTR]', '"GEO::Mesh::vertices"', '"point"', '"double"', '8', '3', *"0 0 0 1 0 0 0 1 0".split())
    eq(rc.read("geogram_ascii", (head + v3).encode()), vertices=[[0, 0, 0], [1, 0, 0], [0, 1, 0]])
    bad = [
        v3,  # no HEAD
        chunk('[HEAD]', '"GEOGRAMME"', '"1.0"') + v3,
        head + v3.replace('\n8\n', '\n4\n'),  # wrong element size
        head + v3.replace('"3"', '3').replace('\n3\n[ATTR]', '\n4\n[ATTR]'),  # 4 vertices announced, 9 values
        head + chunk('[ATTR]', '"GEO::Mesh::vertices"', '"point"', '"double"', '8', '3'),  # ATTR before ATTS
        head + v3 + chunk('[ATTS]', '"GEO::Mesh::facets"', '1') + chunk('[ATTS]', '"GEO::Mesh::facet_corners"', '4')
        + chunk('[ATTR]', '"GEO::Mesh::facet_corners"', '"GEO::Mesh::facet_corners::corner_vertex"', '"index_t"', '4', '1', '0', '1', '2', '0'),
        head + v3 + chunk('[ATTS]', '"GEO::Mesh::facets"', '1') + chunk('[ATTS]', '"GEO::Mesh::facet_corners"', '3')
        + chunk('[ATTR]', '"GEO::Mesh::facet_corners"', '"GEO::Mesh::facet_corners::corner_vertex"', '"index_t"', '4', '1', '0', '1', '3'),
        head + v3 + chunk('[ATTS]', '"GEO::Mesh::facets"', '1') + chunk('[ATTS]', '"GEO::Mesh::facet_corners"', '3'),
    ]
    for b in bad:
        raises(rc.FormatError, rc.read, "geogram_ascii", b.encode())
    print("(b) literal files ok")


# ---------------------------------------------------------------------------------------------------
# (c) informational cross-check against mouette
# ---------------------------------------------------------------------------------------------------

def cross_check():
    try:
        import numpy as np
        import mouette as M
        from mouette.mesh.mesh import _instanciate_raw_mesh_data
    except Exception as e:  # pragma: no cover
        print("(c) skipped: cannot import mouette / numpy: %r" % (e,))
        return
    warnings.simplefilter("ignore")
    tmp = tempfile.mkdtemp(prefix="ref_codecs_", dir="/tmp")
    try:
        return _cross_check(tmp, np, M, _instanciate_raw_mesh_data)
    finally:
        shutil.rmtree(tmp, ignore_errors=True)


def _cross_check(tmp, np, M, _instanciate_raw_mesh_data):
    findings = {}  # message -> list of cases

    def _note(direction, fmt, case, msg, detail=""):
        f = findings.setdefault((direction, fmt, msg), {"cases": [], "detail": "", "where": ""})
        f["cases"].append(case)
        if detail and not f["detail"]:
            f["detail"], f["where"] = detail, case

    note = _note

    def to_mouette(mesh):
        V = np.array(mesh.get("vertices", []), dtype=float).reshape(-1, 3)
        E, F, C = mesh.get("edges") or None, mesh.get("faces") or None, mesh.get("cells") or None
        regular = all(x is None or len(set(map(len, x))) == 1 for x in (F, C))
        if regular:
            m = M.mesh.from_arrays(V, E=None if E is None else np.array(E), F=None if F is None else np.array(F),
                                   C=None if C is None else np.array(C))
        else:
            raw = M.mesh.RawMeshData()
            raw.vertices += list(V)
            if E: raw.edges += [tuple(e) for e in E]
            if F: raw.faces += [list(f) for f in F]
            if C: raw.cells += [list(c) for c in C]
            m = _instanciate_raw_mesh_data(raw)
        pytype = {"bool": bool, "int": int, "float": float, "str": str}
        for s, attrs in (mesh.get("attributes") or {}).items():
            cont = getattr(m, s)
            for name, a in attrs.items():
                at = cont.create_attribute(name, pytype[a["type"]], a["arity"])
                for i, v in enumerate(a["values"]):
                    at[i] = v
        return m

    def from_mouette(m):
        def ints(cont):
            return [[int(i) for i in rec] for rec in cont]
        d = {"vertices": [[float(c) for c in p] for p in m.vertices], "edges": [], "faces": [], "cells": [], "attributes": {}}
        if hasattr(m, "edges"): d["edges"] = ints(m.edges)
        if hasattr(m, "faces"): d["faces"] = ints(m.faces)
        if hasattr(m, "cells"): d["cells"] = ints(m.cells)
        conv = {"Bool": ("bool", bool), "Int": ("int", int), "Float": ("float", float), "String": ("str", str)}
        for s in ("vertices", "edges", "faces", "face_corners", "cells", "cell_corners", "cell_faces"):
            cont = getattr(m, s, None)
            if cont is None:
                continue
            for name in cont.attributes:
                at = cont.get_attribute(name)
                if at.type.name not in conv:
                    continue
                tn, tf = conv[at.type.name]
                k = at.elemsize
                vals = []
                for i in range(len(cont)):
                    v = at[i]
                    vals.append(tf(v) if k == 1 else [tf(x) for x in v])
                d["attributes"].setdefault(s, {})[name] = {"type": tn, "arity": k, "values": vals}
        return d

    def bits(V):
        return [[struct.pack("<d", c) for c in p] for p in V]

    def eset(E):
        return sorted(tuple(sorted(e)) for e in E)

    def short(x, n=160):
        s = repr(x)
        return s if len(s) <= n else s[:n] + "..."

    def compare_attrs(direction, fmt, case, want, got, subset, note=None):
        note = note or _note
        """subset=True: the reading side may hold more attributes, and more elements per set (completed edges / faces
        are appended after the ones of the file), so only the leading values are compared"""
        for s, attrs in want.items():
            for name, a in attrs.items():
                b = got.get(s, {}).get(name)
                if b is None:
                    elsewhere = [s2 for s2 in got if name in got[s2]]
                    note(direction, fmt, case, "attribute on set '%s' missing on the reading side%s"
                         % (s, " (found on set '%s' instead)" % elsewhere[0] if elsewhere else ""), name)
                    continue
                b = dict(b)
                if subset:
                    b["values"] = b["values"][:len(a["values"])]
                if not rc.same({"attributes": {s: {name: a}}}, {"attributes": {s: {name: b}}}):
                    note(direction, fmt, case, "attribute on set '%s' differs" % s, "%s: wrote %s, read %s"
                         % (name, short({k: a[k] for k in ("type", "arity", "values")}), short({k: b[k] for k in ("type", "arity", "values")})))
        if not subset:
            for s, attrs in got.items():
                for name in attrs:
                    if name not in want.get(s, {}):
                        note(direction, fmt, case, "unexpected attribute on set '%s' in the file" % s, "%s: %s" % (name, short(attrs[name])))

    def by_kind(recs):
        d = {}
        for r in recs:
            d.setdefault(len(r), []).append(r)
        return d

    cases = {k: MESHES[k] for k in ("cloud_weird", "polyline", "tri", "tri_weird", "quad", "mixed", "penta", "tri_edges",
                                    "tets", "hexes", "tet_hex", "stl_friendly")}
    cases["attrs_surface"] = {k: ATTR_MESH[k] for k in ("vertices", "edges", "faces")}
    cases["attrs_surface"]["attributes"] = {k: ATTR_MESH["attributes"][k] for k in ("vertices", "edges", "faces", "face_corners")}
    cases["attrs_surface"]["attributes"]["vertices"] = {k: v for k, v in ATTR_MESH["attributes"]["vertices"].items() if '"' not in k}
    cases["attrs_tets"] = ATTR_TETS

    # ---------------- mouette writes, ref reads
    for fmt in rc.FORMATS:
        for case, mesh in cases.items():
            if mesh.get("attributes") and fmt != "geogram_ascii":
                continue
            if fmt == "stl" and not stl_ok(mesh):
                continue
            path = os.path.join(tmp, "m2r_%s.%s" % (case, fmt))
            try:
                m = to_mouette(mesh)
                held = from_mouette(m)  # what mouette holds (edges / faces completed from faces / cells)
            except Exception as e:
                note("build", fmt, case, "cannot build the mouette mesh: %r" % (e,))
                continue
            try:
                M.mesh.save(m, path)
            except Exception as e:
                note("mouette->ref", fmt, case, "mouette.save raised %s" % type(e).__name__, short(str(e)))
                continue
            try:
                got = rc.read(fmt, open(path, "rb").read())
            except Exception as e:
                note("mouette->ref", fmt, case, "reference reader refuses the file: " + "".join(c for c in str(e) if not c.isdigit())[:70], short(str(e), 240))
                continue
            want = expected(fmt, held)
            if fmt == "stl":
                tri_quads = all(len(f) in (3, 4) for f in held["faces"])
                # a quad may legitimately be split into two triangles; compare against that when all faces are tri/quad
                F2 = []
                for f in held["faces"]:
                    F2 += [f] if len(f) == 3 else ([[f[0], f[1], f[2]], [f[2], f[3], f[0]]] if len(f) == 4 else [])
                want = expected(fmt, {"vertices": held["vertices"], "faces": F2})
            if bits(got["vertices"]) != bits(want["vertices"]):
                if len(got["vertices"]) != len(want["vertices"]):
                    note("mouette->ref", fmt, case, "vertex count differs", "file %d, mesh %d" % (len(got["vertices"]), len(want["vertices"])))
                else:
                    bad = [(i, a, b) for i, (a, b) in enumerate(zip(got["vertices"], want["vertices"])) if bits([a]) != bits([b])]
                    note("mouette->ref", fmt, case, "coordinates not bit-exact", "vertex %d: file %r, mesh %r" % bad[0])
            grouped = fmt == "mesh"  # medit groups elements by kind; the order of the groups is the writer's choice
            if (by_kind(got["faces"]) != by_kind(want["faces"])) if grouped else (got["faces"] != want["faces"]):
                note("mouette->ref", fmt, case, "faces differ", "file %s, mesh %s" % (short(got["faces"]), short(want["faces"])))
            if (by_kind(got["cells"]) != by_kind(want["cells"])) if grouped else (got["cells"] != want["cells"]):
                note("mouette->ref", fmt, case, "cells differ", "file %s, mesh %s" % (short(got["cells"]), short(want["cells"])))
            if rc.EXPRESSIBLE[fmt]["edges"]:
                if got["edges"] != want["edges"]:
                    hard = eset(mesh.get("edges", []))
                    if eset(got["edges"]) == eset(want["edges"]):
                        note("mouette->ref", fmt, case, "edges: same set, different order / orientation")
                    elif eset(got["edges"]) == hard:
                        note("mouette->ref", fmt, case, "(dialect) edges: the file holds only the edges given explicitly ('hard edges'), "
                             "not all the edges the mesh object holds", "file %d edges, mesh %d edges" % (len(got["edges"]), len(want["edges"])))
                    else:
                        note("mouette->ref", fmt, case, "edges differ", "file %s, mesh %s" % (short(got["edges"]), short(want["edges"])))
            elif got["edges"]:
                note("mouette->ref", fmt, case, "edges in a format without edges")
            if fmt == "geogram_ascii":
                compare_attrs("mouette->ref", fmt, case, held["attributes"], got["attributes"], subset=False)

    # ---------------- ref writes, mouette reads
    plain_fail = set()
    for fmt in rc.FORMATS:
        variants = [{}] + [{p: True} for p in rc.LEGAL_PERTURBATIONS[fmt]]
        if len(rc.LEGAL_PERTURBATIONS[fmt]) > 1:
            variants.append({p: True for p in rc.LEGAL_PERTURBATIONS[fmt]})
        if fmt == "stl":
            variants = [{}] + [dict(v, ascii=True) for v in variants]
        if fmt == "obj":
            variants += [{"face_style": "v/vt"}, {"face_style": "v//vn"}, {"face_style": "v/vt/vn"}, {"relative_indices": True}, {"polylines": True}]
        if fmt == "mesh":
            variants += [{"count_same_line": True}, {"ref": 5}]
        if fmt == "off":
            variants += [{"counts_on_header_line": True}]
        if fmt == "geogram_ascii":
            variants += [{"adjacency": False}]
        for case, mesh in cases.items():
            if mesh.get("attributes") and fmt != "geogram_ascii":
                continue
            if fmt == "stl" and not stl_ok(mesh):
                continue
            want = expected(fmt, mesh)
            for v in variants:
                tag = ",".join("%s=%s" % kv for kv in sorted(v.items())) or "plain"
                path = os.path.join(tmp, "r2m_%s_%s.%s" % (case, abs(hash(tag)) % 10 ** 6, fmt))
                data = rc.write(fmt, mesh, lossy=True, **v)
                with open(path, "wb") as f:
                    f.write(data)
                cs = "%s[%s]" % (case, tag)

                def rnote(msg, detail="", case=case, tag=tag, fmt=fmt):
                    if tag == "plain":
                        plain_fail.add((fmt, case, msg))
                    elif (fmt, case, msg) in plain_fail:
                        return  # already reported for the unperturbed file
                    _note("ref->mouette", "%s [%s]" % (fmt, tag), case, msg, detail)
                if fmt == "stl" and not v.get("ascii") and not want["faces"]:
                    # a binary stl with zero triangles aborts the interpreter inside stl_reader: probe it in a child process
                    import subprocess
                    r = subprocess.run([sys.executable, "-W", "ignore", "-c", "import mouette as M; M.mesh.load(%r)" % path],
                                       capture_output=True, text=True)
                    if r.returncode != 0:
                        rnote("mouette.load of a valid binary stl with 0 triangles (84 bytes) kills the interpreter",
                             "exit status %d, %s" % (r.returncode, short(r.stderr.strip().splitlines()[-1:] or "")))
                    continue
                try:
                    got = from_mouette(M.mesh.load(path))
                except Exception as e:
                    rnote("mouette.load raised %s" % type(e).__name__, short(str(e)))
                    continue
                if fmt == "stl":
                    # stl has no vertex table: compare the triangles as coordinate triples (the loader may merge corners)
                    soup = lambda d: [[bits([d["vertices"][i]])[0] for i in f] for f in d["faces"]]
                    try:
                        if soup(got) != soup(want):
                            rnote("triangle soup differs", "loaded %s, file %s"
                                 % (short([[got["vertices"][i] for i in f] for f in got["faces"]]),
                                    short([[want["vertices"][i] for i in f] for f in want["faces"]])))
                    except IndexError:
                        rnote("loaded faces refer to missing vertices")
                    if len(got["vertices"]) != len(want["vertices"]):
                        rnote("(dialect) corners with identical coordinates are merged into one vertex on load",
                             "loaded %d vertices for %d triangles" % (len(got["vertices"]), len(got["faces"])))
                    if got["cells"]:
                        rnote("cells loaded from an stl")
                    continue
                if bits(got["vertices"]) != bits(want["vertices"]):
                    if len(got["vertices"]) != len(want["vertices"]):
                        rnote("vertex count differs", "loaded %d, file %d" % (len(got["vertices"]), len(want["vertices"])))
                    else:
                        bad = [(i, a, b) for i, (a, b) in enumerate(zip(got["vertices"], want["vertices"])) if bits([a]) != bits([b])]
                        rnote("coordinates not bit-exact", "vertex %d: loaded %r, file %r" % bad[0])
                if got["cells"] != want["cells"]:
                    rnote("cells differ", "loaded %s, file %s" % (short(got["cells"]), short(want["cells"])))
                nf = len(want["faces"])
                if got["faces"][:nf] != want["faces"] or (len(got["faces"]) != nf and not want["cells"]):
                    rnote("faces differ", "loaded %s, file %s" % (short(got["faces"]), short(want["faces"])))
                missing = [e for e in eset(want["edges"]) if e not in set(eset(got["edges"]))]
                if missing:
                    rnote("edges of the file missing after load",
                         "missing %s; loaded %s, file %s" % (short(missing), short(got["edges"]), short(want["edges"])))
                elif want["edges"] and not want["faces"] and not want["cells"] and eset(got["edges"]) != eset(want["edges"]):
                    rnote("edges differ", "loaded %s, file %s" % (short(got["edges"]), short(want["edges"])))
                if fmt == "geogram_ascii":
                    compare_attrs("ref->mouette", fmt, cs, want["attributes"], got["attributes"], subset=True, note=lambda d, f, c, m, detail="": rnote(m, detail))

    # a binary stl whose 80 byte header happens to start with "solid" (legal, common): probed in a child process
    import subprocess
    path = os.path.join(tmp, "solid_header.stl")
    with open(path, "wb") as f:
        f.write(b"solid but binary".ljust(80, b" ") + struct.pack("<I", 1)
                + struct.pack("<12f", 0, 0, 1, 0, 0, 0, 1, 0, 0, 0, 1, 0) + b"\0\0")
    check(rc.read("stl", open(path, "rb").read())["faces"] == [[0, 1, 2]], "reference reads the solid-header binary stl")
    r = subprocess.run([sys.executable, "-W", "ignore", "-c",
                        "import mouette as M; m = M.mesh.load(%r); assert len(m.faces) == 1" % path], capture_output=True, text=True)
    if r.returncode != 0:
        _note("ref->mouette", "stl [hand-made]", "one triangle, header 'solid but binary'",
              "mouette.load of a binary stl whose header starts with 'solid' fails",
              "exit status %d, %s" % (r.returncode, short(r.stderr.strip().splitlines()[-1:] or "")))
    print("(c) cross-check against mouette: %d distinct disagreements (informational)" % len(findings))
    for (direction, fmt, msg), f in sorted(findings.items()):
        cs = f["cases"]
        shown = ", ".join(cs[:5]) + (" ... (+%d)" % (len(cs) - 5) if len(cs) > 5 else "")
        print("  [%s] %s: %s" % (direction, fmt, msg))
        if f["detail"]:
            print("      e.g. %s: %s" % (f["where"], f["detail"]))
        print("      cases: %s" % shown)
    return findings


if __name__ == "__main__":
    test_roundtrip()
    test_attributes()
    test_refusals()
    test_literals()
    print("all assertions passed (%d checks)" % CHECKS[0])
    if "--no-cross" not in sys.argv:
        cross_check()
