"""RefVolume: adjacency answers of a tetrahedral mesh by direct inspection of the cell list.
Face and edge identifiers are indices into the mesh's own (durable) face / edge lists.  No mouette import."""
import itertools

from .ref_surface import is_oriented_manifold


def det3(a, b, c):
    return (a[0] * (b[1] * c[2] - b[2] * c[1]) - a[1] * (b[0] * c[2] - b[2] * c[0]) + a[2] * (b[0] * c[1] - b[1] * c[0]))


def sub(a, b):
    return [a[0] - b[0], a[1] - b[1], a[2] - b[2]]


def lib_orientation(pts, cell):
    """sign convention used by the library itself: det(pA-pD, pB-pD, pC-pD) for cell (A,B,C,D)"""
    A, B, C, D = (pts[v] for v in cell)
    return det3(sub(A, D), sub(B, D), sub(C, D))


def outward(pts, tri, opp):
    """triangle (a,b,c) is oriented away from the vertex opp"""
    A, B, C = (pts[v] for v in tri)
    D = pts[opp]
    return det3(sub(A, D), sub(B, D), sub(C, D)) > 0


class RefVolume:
    def __init__(self, pts, cells, faces=None, edges=None):
        self.pts = pts
        self.nv = len(pts)
        self.cells = [list(c) for c in cells]
        self.faces = None if faces is None else [list(f) for f in faces]
        self.edges = None if edges is None else [tuple(e) for e in edges]
        self.fid = None if faces is None else {tuple(sorted(f)): i for i, f in enumerate(self.faces)}
        self.eid = None if edges is None else {tuple(sorted(e)): i for i, e in enumerate(self.edges)}
        # triangles -> cells
        self.tri_cells = {}
        for ic, c in enumerate(self.cells):
            for i in range(4):
                t = tuple(sorted(c[:i] + c[i + 1:]))
                self.tri_cells.setdefault(t, []).append(ic)
        self.edge_cells = {}
        for ic, c in enumerate(self.cells):
            for a, b in itertools.combinations(c, 2):
                self.edge_cells.setdefault(tuple(sorted((a, b))), []).append(ic)

    # ---- faces / cells
    def face_key(self, f):
        return tuple(sorted(self.faces[f]))

    def face_to_cells(self, f):
        return list(self.tri_cells.get(self.face_key(f), []))

    def cell_to_face(self, c):
        C = self.cells[c]
        return [self.fid[tuple(sorted(C[:i] + C[i + 1:]))] for i in range(4)]

    def cell_to_cell(self, c):
        out = []
        C = self.cells[c]
        for i in range(4):
            t = tuple(sorted(C[:i] + C[i + 1:]))
            for o in self.tri_cells[t]:
                if o != c:
                    out.append(o)
        return out

    def other_face_side(self, c, f):
        cs = self.face_to_cells(f)
        if len(cs) != 2 or c not in cs:
            return None
        return cs[0] if cs[1] == c else cs[1]

    def common_face(self, c1, c2):
        s = set(self.cells[c1]) & set(self.cells[c2])
        if len(s) != 3:
            return None
        return self.fid.get(tuple(sorted(s)))

    def vertex_to_cell(self, v):
        return [ic for ic, c in enumerate(self.cells) if v in c]

    def in_cell_face_index(self, c, f):
        C = self.cells[c]
        k = self.face_key(f)
        for i in range(4):
            if tuple(sorted(C[:i] + C[i + 1:])) == k:
                return i
        return None

    def cell_to_edge(self, c):
        return [self.eid[tuple(sorted(p))] for p in itertools.combinations(self.cells[c], 2)]

    # ---- rings about an edge
    def edge_ring(self, e):
        """(is_border, cells in rotational order, faces in rotational order).
        interior: cycles (k cells, k faces); border: chains (k cells, k+1 faces, faces[0] and faces[-1] border)."""
        a, b = self.edges[e]
        cells = list(self.edge_cells.get(tuple(sorted((a, b))), []))
        if not cells:
            return True, [], []
        # each cell has two faces containing the edge: (a,b,x) and (a,b,y)
        def faces_of(c):
            x, y = [v for v in self.cells[c] if v not in (a, b)]
            return tuple(sorted((a, b, x))), tuple(sorted((a, b, y)))
        border_tris = [t for c in cells for t in faces_of(c) if len(self.tri_cells[t]) == 1]
        border = len(border_tris) > 0
        if border:
            start_tri = sorted(border_tris)[0]
            c = self.tri_cells[start_tri][0]
        else:
            c = cells[0]
            start_tri = faces_of(c)[0]
        seq_c, seq_f = [], [start_tri]
        tri = start_tri
        while True:
            seq_c.append(c)
            t1, t2 = faces_of(c)
            nxt = t2 if t1 == tri else t1
            others = [o for o in self.tri_cells[nxt] if o != c]
            if not others:
                seq_f.append(nxt)
                break
            if others[0] == seq_c[0]:
                break  # closed the cycle; nxt == start_tri's partner side
            seq_f.append(nxt)
            tri = nxt
            c = others[0]
            if len(seq_c) > len(cells) + 1:
                break
        return border, seq_c, [self.fid[t] for t in seq_f]

    # ---- border classification
    def border_faces(self):
        return [i for i in range(len(self.faces)) if len(self.face_to_cells(i)) < 2]

    def border_tris(self):
        return [t for t, cs in self.tri_cells.items() if len(cs) == 1]

    def border_edge_keys(self):
        out = set()
        for t in self.border_tris():
            for p in itertools.combinations(t, 2):
                out.add(tuple(sorted(p)))
        return out

    def border_vertices(self):
        return {v for t in self.border_tris() for v in t}

    def outward_border(self):
        """border triangles oriented away from the opposite vertex of their cell: list of (tri, cell)"""
        out = []
        for t, cs in self.tri_cells.items():
            if len(cs) != 1:
                continue
            c = cs[0]
            opp = [v for v in self.cells[c] if v not in t][0]
            tri = list(t)
            if not outward(self.pts, tri, opp):
                tri = [tri[0], tri[2], tri[1]]
            out.append((tri, c))
        return out


def is_conforming_tet_mesh(pts, cells):
    """4 distinct vertices per cell, no repeated cell, non-degenerate, every triangle in <= 2 cells, no unused vertex,
    and the border is a closed manifold surface (so no two parts touch only along an edge or at a vertex)."""
    nv = len(pts)
    seen = set()
    used = set()
    for c in cells:
        if len(c) != 4 or len(set(c)) != 4 or not all(0 <= v < nv for v in c):
            return False
        k = tuple(sorted(c))
        if k in seen:
            return False
        seen.add(k)
        used |= set(c)
        ext = max(abs(pts[c[i]][k] - pts[c[0]][k]) for i in range(1, 4) for k in range(3))
        if abs(lib_orientation(pts, c)) < 1e-9 * max(ext, 1e-300) ** 3:  # degenerate relative to the cell's own size
            return False
    if len(used) != nv:
        return False
    rv = RefVolume(pts, cells)
    if any(len(cs) > 2 for cs in rv.tri_cells.values()):
        return False
    tris = [t for t, _ in rv.outward_border()]
    usedb = sorted({v for t in tris for v in t})
    m = {v: i for i, v in enumerate(usedb)}
    if not tris:
        return False
    ok = is_oriented_manifold(len(usedb), [[m[v] for v in t] for t in tris])
    if not ok:
        return False
    # closed: every edge of the border surface has both directions
    he = {(t[j], t[(j + 1) % 3]) for t in tris for j in range(3)}
    return all((b, a) in he for (a, b) in he)


def seq_equal_mod(got, exp, cyclic):
    """equal up to rotation+reflection (cyclic) or up to reversal (chain)"""
    got, exp = list(got), list(exp)
    if len(got) != len(exp):
        return False
    if not exp:
        return True
    if not cyclic:
        return got == exp or got == exp[::-1]
    n = len(exp)
    for cand in (exp, exp[::-1]):
        for k in range(n):
            if cand[k:] + cand[:k] == got:
                return True
    return False
