"""ref_codecs: independent reference readers / writers for seven mesh file formats.

Written from the *format definitions* (Wavefront OBJ, Medit/INRIA .mesh ASCII, GEOGRAM 1.0 ASCII,
Geomview OFF, the ".tet" format, ".xyz" point clouds, STL binary + ASCII).  Pure Python, stdlib only,
no numpy, and no import of the library under test.

Data model (plain dict, JSON-able)::

    mesh = {
      "vertices": [[x, y, z], ...],       # floats
      "edges":    [[a, b], ...],          # 0-based ints, direction as in the file
      "faces":    [[v0, v1, ...], ...],   # arity >= 3, vertex order as in the file
      "cells":    [[...], ...],           # 4 = tetrahedron, 8 = hexahedron (geogram also 5 = pyramid, 6 = prism)
      "attributes": {"<set>": {"<name>": {"type": "bool|int|float|str", "arity": k, "values": [...]}}},
    }

Missing keys mean empty.  Readers always return the five keys above plus "extra" (format specific
side information: reference numbers, normals, adjacency, header strings ...; never needed to compare meshes).

API::

    write(fmt, mesh, **opts) -> bytes
    read(fmt, data)          -> dict
    project(fmt, mesh)       -> dict      # what `mesh` becomes when pushed through the vocabulary of fmt
    EXPRESSIBLE[fmt]         -> vocabulary of the format
    LEGAL_PERTURBATIONS[fmt] -> names of the benign lexical perturbations the writer implements for fmt
    EXTRA_OPTIONS[fmt]       -> other writer options (dialect variants that do not change meaning)

`write` refuses (ValueError) content the format cannot express unless `lossy=True`, in which case that
content is dropped exactly as `project` describes.
"""
import random
import re
import struct

FORMATS = ("obj", "mesh", "geogram_ascii", "off", "tet", "xyz", "stl")

PERTURBATIONS = ("crlf", "comments", "blank_lines", "trailing_ws", "no_final_newline", "exp_floats")


class FormatError(ValueError):
    """the bytes are not a well-formed file of the format (or mean something the data model cannot hold)"""


# ---------------------------------------------------------------------------------------------------
# vocabulary tables
# ---------------------------------------------------------------------------------------------------

EXPRESSIBLE = {
    "obj": {
        "vertices": True, "isolated_vertices": True, "shared_vertices": True,
        "edges": True,  # `l` elements
        "faces": "any",  # `f` with >= 3 vertices
        "cells": [],
        "attributes": False,
        "coordinates": "decimal text (float64 exact with repr)",
        "element_order": "preserved (edges, faces each in file order)",
        "index_base": 1,
    },
    "mesh": {
        "vertices": True, "isolated_vertices": True, "shared_vertices": True,
        "edges": True,  # Edges
        "faces": [3, 4],  # Triangles, Quadrilaterals
        "cells": [4, 8],  # Tetrahedra, Hexahedra
        "attributes": False,  # (one integer reference per element, carried in extra["refs"])
        "coordinates": "decimal text (float64 exact with repr)",
        "element_order": "grouped by kind: all triangles then all quadrilaterals; all tetrahedra then all hexahedra; "
                         "order preserved inside each group",
        "index_base": 1,
    },
    "geogram_ascii": {
        "vertices": True, "isolated_vertices": True, "shared_vertices": True,
        "edges": True,
        "faces": "any",
        "cells": [4, 5, 6, 8],  # tet, pyramid, prism, hex (connectors are not representable in the data model)
        "attributes": True,
        "attribute_sets": ["vertices", "edges", "faces", "face_corners", "cells", "cell_corners", "cell_faces"],
        "attribute_types": ["bool", "int", "float"],  # "str" has no registered Geogram element type
        "coordinates": "decimal text (float64 exact with repr)",
        "element_order": "preserved",
        "index_base": 0,
    },
    "off": {
        "vertices": True, "isolated_vertices": True, "shared_vertices": True,
        "edges": False,
        "faces": "any",
        "cells": [],
        "attributes": False,
        "coordinates": "decimal text (float64 exact with repr)",
        "element_order": "preserved",
        "index_base": 0,
    },
    "tet": {
        "vertices": True, "isolated_vertices": True, "shared_vertices": True,
        "edges": False,
        "faces": [],
        "cells": [4, 8],
        "attributes": False,
        "coordinates": "decimal text (float64 exact with repr)",
        "element_order": "preserved",
        "index_base": 0,
    },
    "xyz": {
        "vertices": True, "isolated_vertices": True, "shared_vertices": True,
        "edges": False,
        "faces": [],
        "cells": [],
        "attributes": False,
        "coordinates": "decimal text (float64 exact with repr)",
        "element_order": "preserved",
        "index_base": None,
    },
    "stl": {
        "vertices": False,  # no vertex table: only the corners of the triangles exist
        "isolated_vertices": False, "shared_vertices": False,
        "edges": False,
        "faces": [3],  # a soup: triangle i owns vertices 3i, 3i+1, 3i+2
        "cells": [],
        "attributes": False,
        "coordinates": "IEEE float32 (binary: little-endian; ascii writer also quantises to float32)",
        "element_order": "preserved (triangle order and corner order inside each triangle)",
        "index_base": None,
    },
}

LEGAL_PERTURBATIONS = {
    # OBJ: "blank space and blank lines can be freely added", '#' starts a comment line
    "obj": ["crlf", "comments", "blank_lines", "trailing_ws", "no_final_newline", "exp_floats"],
    # Medit ASCII is a free-format token stream; '#' comment lines only emitted between sections
    "mesh": ["crlf", "comments", "blank_lines", "trailing_ws", "no_final_newline", "exp_floats"],
    # Geomview OFF: '#' comments and free white space; never emitted before the OFF keyword
    "off": ["crlf", "comments", "blank_lines", "trailing_ws", "no_final_newline", "exp_floats"],
    # GEOGRAM's own ASCII reader is line based and strict: only the number syntax is safely variable
    "geogram_ascii": ["exp_floats"],
    # no written standard: records are white-space separated fields on lines
    "tet": ["crlf", "trailing_ws", "no_final_newline", "exp_floats"],
    "xyz": ["crlf", "trailing_ws", "no_final_newline", "exp_floats"],
    # only for ascii=True (exponent notation is in fact the canonical STL number syntax)
    "stl": ["crlf", "trailing_ws", "no_final_newline", "exp_floats"],
}

EXTRA_OPTIONS = {
    "obj": ["lossy", "seed", "face_style", "relative_indices", "polylines", "interleave"],
    "mesh": ["lossy", "seed", "ref", "count_same_line", "version"],
    "geogram_ascii": ["lossy", "seed", "adjacency"],
    "off": ["lossy", "seed", "counts_on_header_line", "nedges"],
    "tet": ["lossy", "seed"],
    "xyz": ["lossy", "seed"],
    "stl": ["lossy", "seed", "ascii", "normals", "header", "name"],
}

_INF = float("inf")
NO_ID = 0xFFFFFFFF  # GEOGRAM's NO_FACET / NO_CELL / NO_VERTEX for 32 bit index_t


# ---------------------------------------------------------------------------------------------------
# small helpers
# ---------------------------------------------------------------------------------------------------

def _is_int(x):
    return isinstance(x, int) and not isinstance(x, bool)


def _norm(mesh):
    """-> (V, E, F, C, A) as fresh plain lists; validates shapes and types (not index ranges)"""
    V = []
    for p in mesh.get("vertices") or []:
        p = list(p)
        if len(p) != 3:
            raise ValueError("vertex must have 3 coordinates: %r" % (p,))
        q = [float(c) for c in p]
        for c in q:
            if c != c or c in (_INF, -_INF):
                raise ValueError("non finite coordinate %r is not expressible" % (c,))
        V.append(q)

    def ints(rec, what):
        rec = list(rec)
        out = []
        for i in rec:
            if isinstance(i, bool) or int(i) != i:
                raise ValueError("%s index %r is not an integer" % (what, i))
            out.append(int(i))
        return out

    E = [ints(e, "edge") for e in mesh.get("edges") or []]
    for e in E:
        if len(e) != 2:
            raise ValueError("edge must have 2 vertices: %r" % (e,))
    F = [ints(f, "face") for f in mesh.get("faces") or []]
    for f in F:
        if len(f) < 3:
            raise ValueError("face must have >= 3 vertices: %r" % (f,))
    C = [ints(c, "cell") for c in mesh.get("cells") or []]
    A = mesh.get("attributes") or {}
    return V, E, F, C, A


def f32(x):
    """x rounded to the nearest IEEE float32, as a Python float (OverflowError when out of range)"""
    return struct.unpack("<f", struct.pack("<f", float(x)))[0]


def _ff(x, exp):
    x = float(x)
    return ("%.17e" % x) if exp else repr(x)


def _decode(data):
    if isinstance(data, str):
        text = data
    else:
        text = bytes(data).decode("utf-8", errors="replace")
    if text.startswith("\ufeff"):
        text = text[1:]
    return text


_EOL = re.compile(r"\r\n|\n|\r")


def _lines(text):
    return _EOL.split(text)


def _to_int(tok, where):
    if not re.fullmatch(r"[+-]?[0-9]+", tok):
        raise FormatError("%s: expected an integer, got %r" % (where, tok))
    return int(tok)


def _to_float(tok, where):
    try:
        x = float(tok)
    except ValueError:
        raise FormatError("%s: expected a number, got %r" % (where, tok))
    if "_" in tok:  # python accepts 1_0, no file format does
        raise FormatError("%s: expected a number, got %r" % (where, tok))
    return x


def _check_indices(mesh, where):
    n = len(mesh["vertices"])
    for kind in ("edges", "faces", "cells"):
        for rec in mesh[kind]:
            for i in rec:
                if not 0 <= i < n:
                    raise FormatError("%s: %s record %r refers to vertex %d but there are %d vertices"
                                      % (where, kind, rec, i, n))


def _empty_mesh():
    return {"vertices": [], "edges": [], "faces": [], "cells": [], "attributes": {}, "extra": {}}


class _Text:
    """line oriented output with the benign lexical perturbations.

    add(line, gap=...)  gap=True marks a position *before* this line where a comment line and / or an
    empty line may be inserted without changing the meaning of the file."""

    def __init__(self, fmt, opts):
        self.fmt = fmt
        legal = LEGAL_PERTURBATIONS[fmt]
        self.p = {}
        for name in PERTURBATIONS:
            v = bool(opts.pop(name, False))
            if v and name not in legal:
                raise ValueError("perturbation %r is not legal for format %r" % (name, fmt))
            self.p[name] = v
        self.rng = random.Random(opts.pop("seed", 0))
        self.exp = self.p["exp_floats"]
        self.rows = []  # (text, gap)

    def ff(self, x):
        return _ff(x, self.exp)

    def add(self, line, gap=False):
        self.rows.append((line, gap))

    def finish(self):
        p = self.p
        gaps = [i for i, (_, g) in enumerate(self.rows) if g]
        chosen = set()
        if gaps and (p["comments"] or p["blank_lines"]):
            chosen = {gaps[0], gaps[-1]}
            chosen.update(g for g in gaps if self.rng.random() < 0.3)
        out = []
        ncom = 0
        for i, (line, _) in enumerate(self.rows):
            if i in chosen:
                if p["blank_lines"]:
                    out.append("")
                if p["comments"]:
                    ncom += 1
                    out.append("# comment %d written by ref_codecs: 1 2 3 v f End OFF" % ncom)
                    if p["blank_lines"] and self.rng.random() < 0.5:
                        out.append("")
            out.append(line)
        if p["trailing_ws"]:
            tails = (" ", "\t", "  ", " \t ")
            out = [(s + self.rng.choice(tails)) if s else s for s in out]
        eol = "\r\n" if p["crlf"] else "\n"
        text = eol.join(out)
        if out and not p["no_final_newline"]:
            text += eol
        return text.encode("utf-8")


def _no_more(opts, fmt):
    if opts:
        raise TypeError("unknown option(s) for %s writer: %s" % (fmt, ", ".join(sorted(opts))))


def _refuse(lossy, fmt, what):
    if not lossy:
        raise ValueError("format %r cannot express %s (pass lossy=True to drop it)" % (fmt, what))


# ---------------------------------------------------------------------------------------------------
# projection onto the vocabulary of a format
# ---------------------------------------------------------------------------------------------------

_GEO_CELL_NFACETS = {4: 4, 8: 6, 6: 5, 5: 5}


def _set_sizes(V, E, F, C):
    return {
        "vertices": len(V), "edges": len(E), "faces": len(F), "face_corners": sum(len(f) for f in F),
        "cells": len(C), "cell_corners": sum(len(c) for c in C),
        "cell_faces": sum(_GEO_CELL_NFACETS.get(len(c), 0) for c in C),
    }


def project(fmt, mesh):
    """The mesh that an ideal write -> read through `fmt` yields (content outside the vocabulary dropped)."""
    if fmt not in FORMATS:
        raise ValueError("unknown format %r" % (fmt,))
    V, E, F, C, A = _norm(mesh)
    out = {"vertices": V, "edges": [], "faces": [], "cells": [], "attributes": {}}
    voc = EXPRESSIBLE[fmt]
    if fmt == "stl":
        soup = []
        faces = []
        for f in F:
            if len(f) == 3:
                k = len(soup)
                try:
                    soup += [[f32(c) for c in V[i]] for i in f]
                except OverflowError:
                    raise ValueError("stl: coordinate outside the float32 range")
                faces.append([k, k + 1, k + 2])
        out["vertices"] = soup
        out["faces"] = faces
        return out
    if voc["edges"]:
        out["edges"] = E
    if voc["faces"] == "any":
        out["faces"] = F
    else:
        for k in voc["faces"]:  # grouped by arity (only matters for medit)
            out["faces"] += [f for f in F if len(f) == k]
    if fmt in ("geogram_ascii", "tet"):  # one list of records in file order (medit groups by kind)
        out["cells"] = [c for c in C if len(c) in voc["cells"]]
    else:
        for k in voc["cells"]:
            out["cells"] += [c for c in C if len(c) == k]
    if voc["attributes"]:
        dropped = len(out["cells"]) != len(C)
        sizes = _set_sizes(V, out["edges"], out["faces"], out["cells"])
        for s, attrs in A.items():
            if s not in voc["attribute_sets"] or (dropped and s.startswith("cell")) or sizes[s] == 0:
                continue  # (an empty element set is not written at all, so it cannot carry attributes)
            for name, a in attrs.items():
                if a["type"] in voc["attribute_types"]:
                    out["attributes"].setdefault(s, {})[name] = {
                        "type": a["type"], "arity": int(a["arity"]),
                        "values": [list(v) if int(a["arity"]) > 1 else v for v in a["values"]]}
    return out


# ---------------------------------------------------------------------------------------------------
# Wavefront OBJ
# ---------------------------------------------------------------------------------------------------

def _write_obj(mesh, opts):
    lossy = opts.pop("lossy", False)
    style = opts.pop("face_style", "v")  # v | v/vt | v//vn | v/vt/vn
    relative = opts.pop("relative_indices", False)
    polylines = opts.pop("polylines", False)
    interleave = opts.pop("interleave", False)  # vertices are written just before the first face that needs them (streaming writers do)
    T = _Text("obj", opts)
    _no_more(opts, "obj")
    if style not in ("v", "v/vt", "v//vn", "v/vt/vn"):
        raise ValueError("face_style must be one of v, v/vt, v//vn, v/vt/vn")
    V, E, F, C, A = _norm(mesh)
    if C:
        _refuse(lossy, "obj", "cells")
    if any(A.get(s) for s in A):
        _refuse(lossy, "obj", "attributes")
    n = len(V)
    cur = [0]  # vertices written so far: a relative index counts backwards from there

    def ref(i):
        return str(i - cur[0]) if relative else str(i + 1)

    def vertices_upto(k):
        while cur[0] < k:
            T.add("v " + " ".join(T.ff(c) for c in V[cur[0]]), gap=True)
            cur[0] += 1

    if not interleave:
        vertices_upto(n)
    if "vt" in style:
        T.add("vt 0.0 0.0", gap=True)
        T.add("vt 1.0 0.0", gap=True)
    if "vn" in style:
        T.add("vn 0.0 0.0 1.0", gap=True)
    if interleave:
        for f in F:
            vertices_upto(max(f) + 1)
            toks = []
            for k, i in enumerate(f):
                vt = str(-1 - (k % 2)) if relative else str(1 + (k % 2))
                vn = "-1" if relative else "1"
                toks.append({"v": ref(i), "v/vt": ref(i) + "/" + vt, "v//vn": ref(i) + "//" + vn,
                             "v/vt/vn": ref(i) + "/" + vt + "/" + vn}[style])
            T.add("f " + " ".join(toks), gap=True)
        vertices_upto(n)
        F = []
    if polylines:
        # consecutive edges (a,b)(b,c) are chained into one `l a b c` element; same edges, same order
        chain = []
        for a, b in E:
            if chain and chain[-1] == a:
                chain.append(b)
            else:
                if chain:
                    T.add("l " + " ".join(ref(i) for i in chain), gap=True)
                chain = [a, b]
        if chain:
            T.add("l " + " ".join(ref(i) for i in chain), gap=True)
    else:
        for a, b in E:
            T.add("l %s %s" % (ref(a), ref(b)), gap=True)
    for f in F:
        toks = []
        for k, i in enumerate(f):
            vt = str(-1 - (k % 2)) if relative else str(1 + (k % 2))
            vn = "-1" if relative else "1"
            toks.append({"v": ref(i), "v/vt": ref(i) + "/" + vt, "v//vn": ref(i) + "//" + vn,
                         "v/vt/vn": ref(i) + "/" + vt + "/" + vn}[style])
        T.add("f " + " ".join(toks), gap=True)
    return T.finish()


def _obj_ref(tok, ncur, where, allow_vn=True):
    parts = tok.split("/")
    if len(parts) > (3 if allow_vn else 2) or parts[0] == "":
        raise FormatError("%s: bad vertex reference %r" % (where, tok))
    for q in parts[1:]:
        if q != "":
            if _to_int(q, where) == 0:
                raise FormatError("%s: index 0 in %r" % (where, tok))
    i = _to_int(parts[0], where)
    if i == 0:
        raise FormatError("%s: OBJ indices start at 1, got 0" % where)
    if i > 0:
        return i - 1
    if ncur + i < 0:
        raise FormatError("%s: relative index %d reaches before the first vertex" % (where, i))
    return ncur + i


def _read_obj(text):
    text = re.sub(r"\\(\r\n|\n|\r)", " ", text)  # line continuation
    out = _empty_mesh()
    V, E, F = out["vertices"], out["edges"], out["faces"]
    ignored = {}
    for ln, raw in enumerate(_lines(text), 1):
        toks = raw.split("#", 1)[0].split()
        if not toks:
            continue
        where = "obj line %d" % ln
        kw = toks[0]
        if kw == "v":
            if len(toks) < 4:
                raise FormatError("%s: v needs 3 coordinates" % where)
            vals = [_to_float(t, where) for t in toks[1:]]  # x y z [w] or x y z r g b
            V.append(vals[:3])
        elif kw == "f":
            idx = [_obj_ref(t, len(V), where) for t in toks[1:]]
            if len(idx) < 3:
                raise FormatError("%s: f needs at least 3 vertices" % where)
            F.append(idx)
        elif kw == "l":
            idx = [_obj_ref(t, len(V), where, allow_vn=False) for t in toks[1:]]
            if len(idx) < 2:
                raise FormatError("%s: l needs at least 2 vertices" % where)
            for a, b in zip(idx, idx[1:]):
                E.append([a, b])
        else:
            ignored[kw] = ignored.get(kw, 0) + 1  # vt vn vp p g o s usemtl mtllib ...
    out["extra"]["ignored_keywords"] = ignored
    _check_indices(out, "obj")
    return out


# ---------------------------------------------------------------------------------------------------
# Medit / INRIA .mesh (ASCII)
# ---------------------------------------------------------------------------------------------------

_MEDIT_ELEMS = {  # keyword -> (target, arity)
    "Edges": ("edges", 2), "Triangles": ("faces", 3), "Quadrilaterals": ("faces", 4),
    "Tetrahedra": ("cells", 4), "Hexahedra": ("cells", 8),
}
# other keywords of the format that can be skipped: keyword -> (ints per record, reals-per-record as multiple of dim)
_MEDIT_SKIP = {
    "Corners": (1, 0), "RequiredVertices": (1, 0), "Ridges": (1, 0), "RequiredEdges": (1, 0),
    "RequiredTriangles": (1, 0), "RequiredQuadrilaterals": (1, 0),
    "Normals": (0, 1), "Tangents": (0, 1), "NormalAtVertices": (2, 0), "TangentAtVertices": (2, 0),
    "NormalAtTriangleVertices": (3, 0), "NormalAtQuadrilateralVertices": (3, 0),
}
_MEDIT_UNREPRESENTABLE = {"Prisms", "Pyramids", "Pentahedra", "TrianglesP2", "EdgesP2", "TetrahedraP2",
                          "QuadrilateralsQ2", "HexahedraQ2"}


def _write_medit(mesh, opts):
    lossy = opts.pop("lossy", False)
    ref = opts.pop("ref", 0)
    same = opts.pop("count_same_line", False)
    version = opts.pop("version", 2)  # 2 = reals are double precision
    T = _Text("mesh", opts)
    _no_more(opts, "mesh")
    V, E, F, C, A = _norm(mesh)
    if any(len(f) not in (3, 4) for f in F):
        _refuse(lossy, "mesh", "faces that are neither triangles nor quadrilaterals")
    if any(len(c) not in (4, 8) for c in C):
        _refuse(lossy, "mesh", "cells that are neither tetrahedra nor hexahedra")
    if any(A.get(s) for s in A):
        _refuse(lossy, "mesh", "attributes")
    ref = int(ref)

    def section(kw, recs, fmt_rec):
        if not recs:
            return
        if same:
            T.add("%s %d" % (kw, len(recs)), gap=True)
        else:
            T.add(kw, gap=True)
            T.add(str(len(recs)))
        for r in recs:
            T.add(fmt_rec(r))

    T.add("MeshVersionFormatted %d" % version)
    T.add("Dimension 3", gap=True)
    section("Vertices", V, lambda p: " ".join(T.ff(c) for c in p) + " %d" % ref)
    ints = lambda r: " ".join(str(i + 1) for i in r) + " %d" % ref
    section("Edges", E, ints)
    section("Triangles", [f for f in F if len(f) == 3], ints)
    section("Quadrilaterals", [f for f in F if len(f) == 4], ints)
    section("Tetrahedra", [c for c in C if len(c) == 4], ints)
    section("Hexahedra", [c for c in C if len(c) == 8], ints)
    T.add("End", gap=True)
    return T.finish()


def _read_medit(text):
    toks = []
    for raw in _lines(text):
        toks += raw.split("#", 1)[0].split()
    out = _empty_mesh()
    refs = {}
    pos = [0]

    def nxt(what):
        if pos[0] >= len(toks):
            raise FormatError("medit: unexpected end of file while reading %s" % what)
        t = toks[pos[0]]
        pos[0] += 1
        return t

    if nxt("header") != "MeshVersionFormatted":
        raise FormatError("medit: file must start with MeshVersionFormatted")
    version = _to_int(nxt("version"), "medit version")
    dim = None
    ended = False
    while pos[0] < len(toks):
        kw = nxt("keyword")
        if kw == "End":
            ended = True
            break
        if kw == "Dimension":
            dim = _to_int(nxt("dimension"), "medit Dimension")
            if dim not in (2, 3):
                raise FormatError("medit: Dimension %d not supported" % dim)
        elif kw == "Vertices":
            if dim is None:
                raise FormatError("medit: Vertices before Dimension")
            n = _to_int(nxt("count"), "medit Vertices count")
            for k in range(n):
                p = [_to_float(nxt("vertex"), "medit vertex %d" % (k + 1)) for _ in range(dim)]
                if dim == 2:
                    p.append(0.0)
                out["vertices"].append(p)
                refs.setdefault("Vertices", []).append(_to_int(nxt("reference"), "medit vertex %d reference" % (k + 1)))
        elif kw in _MEDIT_ELEMS:
            target, arity = _MEDIT_ELEMS[kw]
            n = _to_int(nxt("count"), "medit %s count" % kw)
            for k in range(n):
                where = "medit %s %d" % (kw, k + 1)
                rec = [_to_int(nxt(where), where) for _ in range(arity)]
                if any(i < 1 for i in rec):
                    raise FormatError("%s: medit indices start at 1, got %r" % (where, rec))
                out[target].append([i - 1 for i in rec])
                refs.setdefault(kw, []).append(_to_int(nxt("reference"), where + " reference"))
        elif kw in _MEDIT_SKIP:
            if dim is None:
                raise FormatError("medit: %s before Dimension" % kw)
            ni, nr = _MEDIT_SKIP[kw]
            n = _to_int(nxt("count"), "medit %s count" % kw)
            for _ in range(n):
                for _ in range(ni):
                    _to_int(nxt(kw), "medit " + kw)
                for _ in range(nr * dim):
                    _to_float(nxt(kw), "medit " + kw)
        elif kw in _MEDIT_UNREPRESENTABLE:
            raise FormatError("medit: %s elements are not representable in the data model" % kw)
        else:
            raise FormatError("medit: unknown keyword %r" % kw)
    out["extra"] = {"version": version, "dimension": dim, "refs": refs, "has_End": ended}
    _check_indices(out, "medit")
    return out


# ---------------------------------------------------------------------------------------------------
# Geomview OFF
# ---------------------------------------------------------------------------------------------------

def _write_off(mesh, opts):
    lossy = opts.pop("lossy", False)
    inline = opts.pop("counts_on_header_line", False)
    nedges = opts.pop("nedges", 0)  # third count: "can safely be 0", ignored by readers
    T = _Text("off", opts)
    _no_more(opts, "off")
    V, E, F, C, A = _norm(mesh)
    if E:
        _refuse(lossy, "off", "edges")
    if C:
        _refuse(lossy, "off", "cells")
    if any(A.get(s) for s in A):
        _refuse(lossy, "off", "attributes")
    counts = "%d %d %d" % (len(V), len(F), int(nedges))
    if inline:
        T.add("OFF " + counts)
    else:
        T.add("OFF")
        T.add(counts, gap=True)
    for p in V:
        T.add(" ".join(T.ff(c) for c in p), gap=True)
    for f in F:
        T.add("%d " % len(f) + " ".join(str(i) for i in f), gap=True)
    return T.finish()


def _read_off(text):
    toks = []  # (token, line number)
    for ln, raw in enumerate(_lines(text), 1):
        for t in raw.split("#", 1)[0].split():
            toks.append((t, ln))
    if not toks:
        raise FormatError("off: empty file")
    m = re.fullmatch(r"(ST)?(C)?(N)?(4)?(n)?OFF", toks[0][0])
    if not m:
        raise FormatError("off: missing OFF header keyword (got %r)" % toks[0][0])
    if m.group(4) or m.group(5):
        raise FormatError("off: 4OFF / nOFF (non 3-d) files are not representable")
    per_line_vertices = bool(m.group(1) or m.group(2) or m.group(3))
    pos = [1]
    if len(toks) > 1 and toks[1][0] == "BINARY":
        raise FormatError("off: binary OFF is not supported")

    def nxt(what):
        if pos[0] >= len(toks):
            raise FormatError("off: unexpected end of file while reading %s" % what)
        t = toks[pos[0]]
        pos[0] += 1
        return t

    def skip_rest_of_line(ln):
        while pos[0] < len(toks) and toks[pos[0]][1] == ln:
            pos[0] += 1

    nv = _to_int(nxt("vertex count")[0], "off vertex count")
    nf = _to_int(nxt("face count")[0], "off face count")
    ne = _to_int(nxt("edge count")[0], "off edge count")
    if nv < 0 or nf < 0:
        raise FormatError("off: negative count")
    out = _empty_mesh()
    for k in range(nv):
        where = "off vertex %d" % k
        t, ln = nxt(where)
        p = [_to_float(t, where)] + [_to_float(nxt(where)[0], where) for _ in range(2)]
        out["vertices"].append(p)
        if per_line_vertices:  # normals / colours / texture coordinates follow on the same line
            skip_rest_of_line(toks[pos[0] - 1][1])
    for k in range(nf):
        where = "off face %d" % k
        t, ln = nxt(where)
        n = _to_int(t, where)
        if n < 3:
            raise FormatError("%s: a face with %d vertices is not representable" % (where, n))
        idx = [_to_int(nxt(where)[0], where) for _ in range(n)]
        out["faces"].append(idx)
        skip_rest_of_line(toks[pos[0] - 1][1])  # optional colour specification
    if pos[0] != len(toks):
        raise FormatError("off: unexpected data after the last face: %r" % (toks[pos[0]][0],))
    out["extra"] = {"header": toks[0][0], "declared_edges": ne}
    _check_indices(out, "off")
    return out


# ---------------------------------------------------------------------------------------------------
# .tet
# ---------------------------------------------------------------------------------------------------

def _write_tet(mesh, opts):
    lossy = opts.pop("lossy", False)
    T = _Text("tet", opts)
    _no_more(opts, "tet")
    V, E, F, C, A = _norm(mesh)
    if E:
        _refuse(lossy, "tet", "edges")
    if F:
        _refuse(lossy, "tet", "faces")
    # (.tet has no written standard: it is defined by its users.  Records are '<k> i1 .. ik'; like GEOGRAM's tet handler and
    #  like mouette, the reference accepts k = 4 (tetrahedron) and k = 8 (hexahedron) under the same '<m> tets' header.)
    if any(len(c) not in (4, 8) for c in C):
        _refuse(lossy, "tet", "cells that are neither tetrahedra nor hexahedra")
    if any(A.get(s) for s in A):
        _refuse(lossy, "tet", "attributes")
    tets = [c for c in C if len(c) in (4, 8)]
    T.add("%d vertices" % len(V))
    T.add("%d tets" % len(tets))
    for p in V:
        T.add(" ".join(T.ff(c) for c in p))
    for c in tets:
        T.add("%d " % len(c) + " ".join(str(i) for i in c))
    return T.finish()


def _read_tet(text):
    rows = [(ln, raw.split()) for ln, raw in enumerate(_lines(text), 1)]
    rows = [(ln, t) for ln, t in rows if t]
    if len(rows) < 2:
        raise FormatError("tet: the two header lines are missing")
    (l1, h1), (l2, h2) = rows[0], rows[1]
    if len(h1) != 2 or h1[1] != "vertices":
        raise FormatError("tet line %d: expected '<n> vertices'" % l1)
    if len(h2) != 2 or h2[1] != "tets":
        raise FormatError("tet line %d: expected '<m> tets'" % l2)
    nv = _to_int(h1[0], "tet vertex count")
    nc = _to_int(h2[0], "tet cell count")
    if nv < 0 or nc < 0:
        raise FormatError("tet: negative count")
    body = rows[2:]
    if len(body) != nv + nc:
        raise FormatError("tet: %d vertices + %d tets announced but %d records present" % (nv, nc, len(body)))
    out = _empty_mesh()
    for ln, t in body[:nv]:
        if len(t) != 3:
            raise FormatError("tet line %d: a vertex is 'x y z'" % ln)
        out["vertices"].append([_to_float(x, "tet line %d" % ln) for x in t])
    for ln, t in body[nv:]:
        where = "tet line %d" % ln
        k = _to_int(t[0], where)
        if k not in (4, 8):
            raise FormatError("%s: a cell record is '4 a b c d' or '8 a .. h' (got leading %d)" % (where, k))
        if len(t) != k + 1:
            raise FormatError("%s: a cell record announces %d indices" % (where, k))
        out["cells"].append([_to_int(x, where) for x in t[1:]])
    _check_indices(out, "tet")
    return out


# ---------------------------------------------------------------------------------------------------
# .xyz point cloud
# ---------------------------------------------------------------------------------------------------

def _write_xyz(mesh, opts):
    lossy = opts.pop("lossy", False)
    T = _Text("xyz", opts)
    _no_more(opts, "xyz")
    V, E, F, C, A = _norm(mesh)
    if E or F or C:
        _refuse(lossy, "xyz", "edges, faces or cells")
    if any(A.get(s) for s in A):
        _refuse(lossy, "xyz", "attributes")
    for p in V:
        T.add(" ".join(T.ff(c) for c in p))
    return T.finish()


def _read_xyz(text):
    out = _empty_mesh()
    rows = []
    for ln, raw in enumerate(_lines(text), 1):
        t = raw.split("#", 1)[0].split()
        if t:
            rows.append((ln, t))
    announced = None
    if rows and len(rows[0][1]) == 1 and re.fullmatch(r"[0-9]+", rows[0][1][0]):
        announced = int(rows[0][1][0])  # optional leading point count used by some writers
        rows = rows[1:]
    widths = set()
    for ln, t in rows:
        where = "xyz line %d" % ln
        if len(t) < 3:
            raise FormatError("%s: a point needs 3 coordinates" % where)
        vals = [_to_float(x, where) for x in t]
        out["vertices"].append(vals[:3])
        widths.add(len(t))
    if announced is not None and announced != len(out["vertices"]):
        raise FormatError("xyz: %d points announced, %d present" % (announced, len(out["vertices"])))
    out["extra"] = {"columns": sorted(widths), "announced": announced}
    return out


# ---------------------------------------------------------------------------------------------------
# STL
# ---------------------------------------------------------------------------------------------------

def _tri_normal(a, b, c):
    u = [b[i] - a[i] for i in range(3)]
    v = [c[i] - a[i] for i in range(3)]
    n = [u[1] * v[2] - u[2] * v[1], u[2] * v[0] - u[0] * v[2], u[0] * v[1] - u[1] * v[0]]
    try:
        l = (n[0] * n[0] + n[1] * n[1] + n[2] * n[2]) ** 0.5
    except OverflowError:
        return [0.0, 0.0, 0.0]
    if not (0.0 < l < _INF):
        return [0.0, 0.0, 0.0]
    n = [x / l for x in n]
    return [f32(x) for x in n]


def _write_stl(mesh, opts):
    lossy = opts.pop("lossy", False)
    ascii_ = opts.pop("ascii", False)
    normals = opts.pop("normals", "computed")  # computed (right hand rule, unit) | zero
    header = opts.pop("header", b"binary stl written by ref_codecs")
    name = opts.pop("name", "ref")
    if normals not in ("computed", "zero"):
        raise ValueError("normals must be 'computed' or 'zero'")
    V, E, F, C, A = _norm(mesh)
    if E or C:
        _refuse(lossy, "stl", "edges or cells")
    if any(len(f) != 3 for f in F):
        _refuse(lossy, "stl", "faces that are not triangles")
    if any(A.get(s) for s in A):
        _refuse(lossy, "stl", "attributes")
    tris = [f for f in F if len(f) == 3]
    for f in tris:
        for i in f:
            if not 0 <= i < len(V):
                raise ValueError("stl: face %r refers to a missing vertex" % (f,))
    used = set(i for f in tris for i in f)
    if len(used) != len(V):
        _refuse(lossy, "stl", "vertices that belong to no triangle")
    try:
        soup = [[[f32(c) for c in V[i]] for i in f] for f in tris]
    except OverflowError:
        raise ValueError("stl: coordinate outside the float32 range")
    if normals == "zero":
        nrm = [[0.0, 0.0, 0.0] for _ in soup]
    else:
        nrm = [_tri_normal(*t) for t in soup]
    if not ascii_:
        for name_ in PERTURBATIONS:
            if opts.get(name_):
                raise ValueError("text perturbation %r does not apply to binary STL (use ascii=True)" % name_)
            opts.pop(name_, None)
        opts.pop("seed", None)
        _no_more(opts, "stl")
        if isinstance(header, str):
            header = header.encode("ascii")
        if len(header) > 80:
            raise ValueError("stl header is at most 80 bytes")
        if header.lstrip().startswith(b"solid"):
            raise ValueError("a binary stl header must not start with 'solid'")
        parts = [header.ljust(80, b"\0"), struct.pack("<I", len(soup))]
        for n, t in zip(nrm, soup):
            parts.append(struct.pack("<12fH", *(n + t[0] + t[1] + t[2] + [0])))
        return b"".join(parts)
    T = _Text("stl", opts)
    _no_more(opts, "stl")
    if not re.fullmatch(r"[A-Za-z0-9_]*", name):
        raise ValueError("stl solid name must be a plain identifier")
    T.add(("solid " + name).rstrip() if name else "solid")
    for n, t in zip(nrm, soup):
        T.add("  facet normal " + " ".join(T.ff(c) for c in n))
        T.add("    outer loop")
        for p in t:
            T.add("      vertex " + " ".join(T.ff(c) for c in p))
        T.add("    endloop")
        T.add("  endfacet")
    T.add(("endsolid " + name).rstrip() if name else "endsolid")
    return T.finish()


def _stl_is_binary(data):
    if len(data) >= 84:
        n = struct.unpack("<I", data[80:84])[0]
        if len(data) == 84 + 50 * n:
            return True
    if data.lstrip()[:5].lower() == b"solid":
        return False
    raise FormatError("stl: neither a binary stl (size != 84 + 50 * count) nor an ascii stl (no 'solid')")


def _read_stl(data):
    data = bytes(data)
    out = _empty_mesh()
    nrm = []
    if _stl_is_binary(data):
        n = struct.unpack("<I", data[80:84])[0]
        attr = []
        for k in range(n):
            rec = struct.unpack_from("<12fH", data, 84 + 50 * k)
            nrm.append(list(rec[0:3]))
            out["vertices"] += [list(rec[3:6]), list(rec[6:9]), list(rec[9:12])]
            out["faces"].append([3 * k, 3 * k + 1, 3 * k + 2])
            attr.append(rec[12])
        out["extra"] = {"binary": True, "header": data[:80].rstrip(b"\0").decode("latin-1"),
                        "normals": nrm, "attribute_byte_counts": attr}
        return out
    toks = _decode(data).split()
    pos = [0]

    def nxt(what):
        if pos[0] >= len(toks):
            raise FormatError("stl: unexpected end of file, expected %s" % what)
        t = toks[pos[0]]
        pos[0] += 1
        return t

    def expect(word):
        t = nxt(word)
        if t.lower() != word:
            raise FormatError("stl: expected %r, got %r" % (word, t))

    names = []
    while pos[0] < len(toks):
        expect("solid")
        # the rest of the 'solid' line is a free text name: skip up to the first 'facet' / 'endsolid'
        nm = []
        while pos[0] < len(toks) and toks[pos[0]].lower() not in ("facet", "endsolid"):
            nm.append(nxt("name"))
        names.append(" ".join(nm))
        while True:
            t = nxt("facet or endsolid").lower()
            if t == "endsolid":
                # optional name follows, up to the next 'solid' keyword or the end
                while pos[0] < len(toks) and toks[pos[0]].lower() != "solid":
                    pos[0] += 1
                break
            if t != "facet":
                raise FormatError("stl: expected 'facet' or 'endsolid', got %r" % t)
            expect("normal")
            nrm.append([_to_float(nxt("normal"), "stl normal") for _ in range(3)])
            expect("outer")
            expect("loop")
            k = len(out["vertices"])
            for _ in range(3):
                expect("vertex")
                out["vertices"].append([_to_float(nxt("coordinate"), "stl vertex") for _ in range(3)])
            expect("endloop")
            expect("endfacet")
            out["faces"].append([k, k + 1, k + 2])
    out["extra"] = {"binary": False, "names": names, "normals": nrm}
    return out


# ---------------------------------------------------------------------------------------------------
# GEOGRAM 1.0 ASCII
# ---------------------------------------------------------------------------------------------------

_GEO_SETS = {
    "vertices": "GEO::Mesh::vertices", "edges": "GEO::Mesh::edges", "faces": "GEO::Mesh::facets",
    "face_corners": "GEO::Mesh::facet_corners", "cells": "GEO::Mesh::cells",
    "cell_corners": "GEO::Mesh::cell_corners", "cell_faces": "GEO::Mesh::cell_facets",
}
_GEO_SETS_INV = {v: k for k, v in _GEO_SETS.items()}

_GEO_POINT = "point"
_GEO_POINT32 = "point_fp32"
_GEO_EDGE_VERTEX = "GEO::Mesh::edges::edge_vertex"
_GEO_FACET_PTR = "GEO::Mesh::facets::facet_ptr"
_GEO_FC_VERTEX = "GEO::Mesh::facet_corners::corner_vertex"
_GEO_FC_ADJ = "GEO::Mesh::facet_corners::corner_adjacent_facet"
_GEO_CELL_TYPE = "GEO::Mesh::cells::cell_type"
_GEO_CELL_PTR = "GEO::Mesh::cells::cell_ptr"
_GEO_CC_VERTEX = "GEO::Mesh::cell_corners::corner_vertex"
_GEO_CF_ADJ = "GEO::Mesh::cell_facets::adjacent_cell"
_GEO_RESERVED = {
    "GEO::Mesh::vertices": {_GEO_POINT, _GEO_POINT32},
    "GEO::Mesh::edges": {_GEO_EDGE_VERTEX},
    "GEO::Mesh::facets": {_GEO_FACET_PTR},
    "GEO::Mesh::facet_corners": {_GEO_FC_VERTEX, _GEO_FC_ADJ},
    "GEO::Mesh::cells": {_GEO_CELL_TYPE, _GEO_CELL_PTR},
    "GEO::Mesh::cell_corners": {_GEO_CC_VERTEX},
    "GEO::Mesh::cell_facets": {_GEO_CF_ADJ},
}

# GEOGRAM cell types and their local facets (MeshCellDescriptors); local facet i of a tet is opposite vertex i
_GEO_CELL_TYPE_OF_ARITY = {4: 0, 8: 1, 6: 2, 5: 3}
_GEO_ARITY_OF_CELL_TYPE = {0: 4, 1: 8, 2: 6, 3: 5, 4: 4}
_GEO_CELL_FACETS = {
    4: [(1, 3, 2), (0, 2, 3), (3, 1, 0), (0, 1, 2)],
    8: [(0, 2, 6, 4), (3, 1, 5, 7), (1, 0, 4, 5), (2, 3, 7, 6), (1, 3, 2, 0), (4, 6, 7, 5)],
    6: [(0, 1, 2), (3, 5, 4), (0, 3, 4, 1), (0, 2, 5, 3), (1, 4, 5, 2)],
    5: [(0, 1, 2, 3), (0, 4, 1), (0, 3, 4), (2, 4, 3), (2, 1, 4)],
}

# element type name -> (data model type, legal byte sizes, scalars per element)
_GEO_TYPES = {
    "bool": ("bool", (1,), 1),
    "char": ("int", (1,), 1),
    "int": ("int", (4,), 1),
    "unsigned int": ("int", (4,), 1),
    "index_t": ("int", (4, 8), 1),  # 8 in GARGANTUA builds
    "signed_index_t": ("int", (4, 8), 1),
    "float": ("float", (4,), 1),
    "double": ("float", (8,), 1),
    "vec2": ("float", (16,), 2),
    "vec3": ("float", (24,), 3),
}
_GEO_WRITE_TYPE = {"bool": ("bool", 1), "int": ("int", 4), "float": ("double", 8)}


def _geo_quote(s):
    return '"' + s.replace("\\", "\\\\").replace('"', '\\"') + '"'


def _geo_unquote(s, where):
    if len(s) < 2 or s[0] != '"' or s[-1] != '"':
        raise FormatError("%s: expected a double-quoted string, got %r" % (where, s))
    body = s[1:-1]
    out = []
    i = 0
    while i < len(body):
        ch = body[i]
        if ch == "\\" and i + 1 < len(body):
            out.append(body[i + 1])
            i += 2
            continue
        if ch == '"':
            raise FormatError("%s: unescaped quote inside string %r" % (where, s))
        out.append(ch)
        i += 1
    return "".join(out)


def _facet_adjacency(F):
    """corner c of facet f is the edge (v_c, v_c+1); adjacent facet = the single other facet sharing that edge"""
    by_edge = {}
    for fi, f in enumerate(F):
        for k in range(len(f)):
            a, b = f[k], f[(k + 1) % len(f)]
            by_edge.setdefault((min(a, b), max(a, b)), []).append(fi)
    adj = []
    for fi, f in enumerate(F):
        for k in range(len(f)):
            a, b = f[k], f[(k + 1) % len(f)]
            fs = by_edge[(min(a, b), max(a, b))]
            adj.append(fs[0] + fs[1] - fi if len(fs) == 2 and fs[0] != fs[1] else NO_ID)
    return adj


def _cell_adjacency(C):
    """one entry per (cell, local facet) in GEOGRAM's local numbering, NO_ID on the border"""
    by_facet = {}
    for ci, c in enumerate(C):
        for lf in _GEO_CELL_FACETS[len(c)]:
            by_facet.setdefault(tuple(sorted(c[i] for i in lf)), []).append(ci)
    adj = []
    for ci, c in enumerate(C):
        for lf in _GEO_CELL_FACETS[len(c)]:
            cs = by_facet[tuple(sorted(c[i] for i in lf))]
            adj.append(cs[0] + cs[1] - ci if len(cs) == 2 and cs[0] != cs[1] else NO_ID)
    return adj


def _write_geogram(mesh, opts):
    lossy = opts.pop("lossy", False)
    adjacency = opts.pop("adjacency", True)
    T = _Text("geogram_ascii", opts)
    _no_more(opts, "geogram_ascii")
    V, E, F, C, A = _norm(mesh)
    ncells = len(C)
    if any(len(c) not in _GEO_CELL_TYPE_OF_ARITY for c in C):
        _refuse(lossy, "geogram_ascii", "cells that are not tet / hex / prism / pyramid")
        C = [c for c in C if len(c) in _GEO_CELL_TYPE_OF_ARITY]
    cells_dropped = len(C) != ncells
    sizes = _set_sizes(V, E, F, C)

    def atts(set_name, n):
        T.add("[ATTS]")
        T.add(_geo_quote(set_name))
        T.add(str(n))

    def attr(set_name, name, tname, tsize, dim, toks):
        T.add("[ATTR]")
        T.add(_geo_quote(set_name))
        T.add(_geo_quote(name))
        T.add(_geo_quote(tname))
        T.add(str(tsize))
        T.add(str(dim))
        for t in toks:  # GEOGRAM writes one scalar per line
            T.add(t)

    def user(set_key, pad=None):
        attrs = A.get(set_key) or {}
        for name, a in attrs.items():
            typ, k, vals = a["type"], int(a["arity"]), list(a["values"])
            if typ not in _GEO_WRITE_TYPE:
                _refuse(lossy, "geogram_ascii", "attribute %r of type %r" % (name, typ))
                continue
            if set_key.startswith("cell") and cells_dropped:
                continue
            if name in _GEO_RESERVED[_GEO_SETS[set_key]]:
                raise ValueError("attribute name %r is reserved by GEOGRAM" % name)
            if len(vals) != sizes[set_key]:
                raise ValueError("attribute %s.%s has %d values for %d elements" % (set_key, name, len(vals), sizes[set_key]))
            if k < 1:
                raise ValueError("attribute arity must be >= 1")
            rows = []
            for v in vals:
                v = [v] if k == 1 else list(v)
                if len(v) != k:
                    raise ValueError("attribute %s.%s: value %r does not have arity %d" % (set_key, name, v, k))
                rows.append(v)
            if pad is not None:
                rows = pad(rows, [{"bool": False, "int": 0, "float": 0.0}[typ]] * k)
            toks = []
            for v in rows:
                for x in v:
                    if typ == "bool":
                        if not isinstance(x, bool):
                            raise ValueError("attribute %s.%s: %r is not a bool" % (set_key, name, x))
                        toks.append("1" if x else "0")
                    elif typ == "int":
                        if not _is_int(x):
                            raise ValueError("attribute %s.%s: %r is not an int" % (set_key, name, x))
                        if not -2 ** 31 <= x < 2 ** 31:
                            raise ValueError("attribute %s.%s: %r does not fit a 4 byte int" % (set_key, name, x))
                        toks.append(str(x))
                    else:
                        x = float(x)
                        if x != x or x in (_INF, -_INF):
                            raise ValueError("attribute %s.%s: non finite value" % (set_key, name))
                        toks.append(T.ff(x))
            tname, tsize = _GEO_WRITE_TYPE[typ]
            attr(_GEO_SETS[set_key], name, tname, tsize, k, toks)

    for s in A:
        if s not in _GEO_SETS:
            raise ValueError("unknown attribute set %r" % s)

    T.add("[HEAD]")
    T.add('"GEOGRAM"')
    T.add('"1.0"')
    if V:
        atts(_GEO_SETS["vertices"], len(V))
        attr(_GEO_SETS["vertices"], _GEO_POINT, "double", 8, 3, [T.ff(c) for p in V for c in p])
        user("vertices")
    if E:
        atts(_GEO_SETS["edges"], len(E))
        attr(_GEO_SETS["edges"], _GEO_EDGE_VERTEX, "index_t", 4, 2, [str(i) for e in E for i in e])
        user("edges")
    if F:
        atts(_GEO_SETS["faces"], len(F))
        if any(len(f) != 3 for f in F):
            ptr, k = [], 0
            for f in F:
                ptr.append(k)
                k += len(f)
            attr(_GEO_SETS["faces"], _GEO_FACET_PTR, "index_t", 4, 1, [str(i) for i in ptr])
        user("faces")
        atts(_GEO_SETS["face_corners"], sizes["face_corners"])
        attr(_GEO_SETS["face_corners"], _GEO_FC_VERTEX, "index_t", 4, 1, [str(i) for f in F for i in f])
        if adjacency:
            attr(_GEO_SETS["face_corners"], _GEO_FC_ADJ, "index_t", 4, 1, [str(i) for i in _facet_adjacency(F)])
        user("face_corners")
    if C:
        simplicial = all(len(c) == 4 for c in C)
        atts(_GEO_SETS["cells"], len(C))
        if not simplicial:
            ptr, k = [], 0
            for c in C:
                ptr.append(k)
                k += len(c)  # slot size max(nb vertices, nb facets) = nb vertices for every cell type
            attr(_GEO_SETS["cells"], _GEO_CELL_TYPE, "char", 1, 1, [str(_GEO_CELL_TYPE_OF_ARITY[len(c)]) for c in C])
            attr(_GEO_SETS["cells"], _GEO_CELL_PTR, "index_t", 4, 1, [str(i) for i in ptr])
        user("cells")
        atts(_GEO_SETS["cell_corners"], sizes["cell_corners"])
        attr(_GEO_SETS["cell_corners"], _GEO_CC_VERTEX, "index_t", 4, 1, [str(i) for c in C for i in c])
        user("cell_corners")

        # cell facets share cell_ptr with cell corners: each cell owns len(cell) slots, the first nb_facets are used
        def pad(rows, filler):
            out, k = [], 0
            for c in C:
                nf = _GEO_CELL_NFACETS[len(c)]
                out += rows[k:k + nf] + [filler] * (len(c) - nf)
                k += nf
            return out

        atts(_GEO_SETS["cell_faces"], sizes["cell_corners"] if not simplicial else sizes["cell_faces"])
        if adjacency:
            adj = pad([[i] for i in _cell_adjacency(C)], [NO_ID])
            attr(_GEO_SETS["cell_faces"], _GEO_CF_ADJ, "index_t", 4, 1, [str(r[0]) for r in adj])
        user("cell_faces", pad=None if simplicial else pad)
    return T.finish()


def _read_geogram(text):
    rows = []
    for ln, raw in enumerate(_lines(text), 1):
        s = raw.strip()
        if s and not s.startswith("#"):  # '#' lines are not part of the format; tolerated, never written
            rows.append((ln, s))
    chunks = []
    for ln, s in rows:
        m = re.fullmatch(r"\[([A-Z]{4})\]", s)
        if m:
            chunks.append((m.group(1), ln, []))
        elif not chunks:
            raise FormatError("geogram line %d: data before the first chunk" % ln)
        else:
            chunks[-1][2].append((ln, s))
    if not chunks or chunks[0][0] != "HEAD":
        raise FormatError("geogram: the file must start with a [HEAD] chunk")
    sets = {}  # geogram set name -> nb items
    attrs = []  # (set, name, type name, byte size, dim, data rows, line)
    version = None
    other_chunks = []
    for cls, ln, body in chunks:
        where = "geogram chunk [%s] at line %d" % (cls, ln)
        if cls == "HEAD":
            if len(body) != 2:
                raise FormatError("%s: expected magic and version" % where)
            if _geo_unquote(body[0][1], where) != "GEOGRAM":
                raise FormatError("%s: magic is not \"GEOGRAM\"" % where)
            version = _geo_unquote(body[1][1], where)
        elif cls == "ATTS":
            if len(body) != 2:
                raise FormatError("%s: expected a set name and a number of items" % where)
            name = _geo_unquote(body[0][1], where)
            if name in sets:
                raise FormatError("%s: attribute set %r declared twice" % (where, name))
            n = _to_int(body[1][1], where)
            if n < 0:
                raise FormatError("%s: negative size" % where)
            sets[name] = n
        elif cls == "ATTR":
            if len(body) < 5:
                raise FormatError("%s: truncated header" % where)
            sname = _geo_unquote(body[0][1], where)
            aname = _geo_unquote(body[1][1], where)
            tname = _geo_unquote(body[2][1], where)
            tsize = _to_int(body[3][1], where + " (element size)")
            dim = _to_int(body[4][1], where + " (dimension)")
            if sname not in sets:
                raise FormatError("%s: attribute %r on undeclared set %r" % (where, aname, sname))
            if dim < 1:
                raise FormatError("%s: dimension must be >= 1" % where)
            attrs.append((sname, aname, tname, tsize, dim, body[5:], ln))
        else:
            other_chunks.append(cls)  # CMNT, CMDL, SPTR, EOFL ... carry no mesh data

    parsed = {}  # (set, name) -> (model type, arity, flat scalar list or raw rows, geogram type)
    for sname, aname, tname, tsize, dim, data, ln in attrs:
        where = "geogram attribute %r on %r (line %d)" % (aname, sname, ln)
        if (sname, aname) in parsed:
            raise FormatError("%s: defined twice" % where)
        n = sets[sname]
        if tname not in _GEO_TYPES:
            if len(data) != n * dim:
                raise FormatError("%s: %d values expected, %d lines found" % (where, n * dim, len(data)))
            parsed[(sname, aname)] = ("str", dim, [s for _, s in data], tname)
            continue
        typ, legal_sizes, per = _GEO_TYPES[tname]
        if tsize not in legal_sizes:
            raise FormatError("%s: element size %d is wrong for type %r" % (where, tsize, tname))
        toks = []
        for _, s in data:
            toks += s.split()
        if len(toks) != n * dim * per:
            raise FormatError("%s: %d values expected, %d found" % (where, n * dim * per, len(toks)))
        if typ == "float":
            vals = [_to_float(t, where) for t in toks]
        elif typ == "int":
            vals = [_to_int(t, where) for t in toks]
        else:
            vals = []
            for t in toks:
                i = _to_int(t, where)
                if i not in (0, 1):
                    raise FormatError("%s: a bool is written 0 or 1, got %r" % (where, t))
                vals.append(bool(i))
        parsed[(sname, aname)] = (typ, dim * per, vals, tname)

    def topo(set_key, name, typ, arity, required_n):
        """flat list of a reserved attribute, or None"""
        key = (_GEO_SETS[set_key], name)
        if key not in parsed:
            return None
        t, k, vals, tname = parsed[key]
        if t != typ or k != arity:
            raise FormatError("geogram: %r must be %s x %d" % (name, typ, arity))
        return vals

    def idx(v, where):
        if v < 0 or v >= NO_ID:
            raise FormatError("geogram: invalid index %d in %s" % (v, where))
        return v

    out = _empty_mesh()
    nv = sets.get(_GEO_SETS["vertices"], 0)
    key = (_GEO_SETS["vertices"], _GEO_POINT)
    if key not in parsed and (_GEO_SETS["vertices"], _GEO_POINT32) in parsed:
        key = (_GEO_SETS["vertices"], _GEO_POINT32)
    if nv:
        if key not in parsed:
            raise FormatError("geogram: vertices without a \"point\" attribute")
        t, k, vals, tname = parsed[key]
        if t != "float" or k not in (2, 3):
            raise FormatError("geogram: \"point\" must be double x 3 (or x 2)")
        for i in range(nv):
            p = vals[k * i:k * i + k]
            out["vertices"].append(p + [0.0] * (3 - k))

    ne = sets.get(_GEO_SETS["edges"], 0)
    if ne:
        ev = topo("edges", _GEO_EDGE_VERTEX, "int", 2, ne)
        if ev is None:
            raise FormatError("geogram: edges without %r" % _GEO_EDGE_VERTEX)
        out["edges"] = [[idx(ev[2 * i], "edge"), idx(ev[2 * i + 1], "edge")] for i in range(ne)]

    def split_by_ptr(ptr, n_items, n_sub, what):
        if len(ptr) != n_items:
            raise FormatError("geogram: %s_ptr has %d entries for %d %ss" % (what, len(ptr), n_items, what))
        ends = ptr[1:] + [n_sub]
        if ptr and ptr[0] != 0:
            raise FormatError("geogram: %s_ptr does not start at 0" % what)
        for a, b in zip(ptr, ends):
            if not 0 <= a <= b <= n_sub:
                raise FormatError("geogram: %s_ptr is not a monotone partition of the corners" % what)
        return list(zip(ptr, ends))

    nf = sets.get(_GEO_SETS["faces"], 0)
    nfc = sets.get(_GEO_SETS["face_corners"], 0)
    adjacency = {}
    if nf:
        cv = topo("face_corners", _GEO_FC_VERTEX, "int", 1, nfc)
        if cv is None:
            raise FormatError("geogram: facets without %r" % _GEO_FC_VERTEX)
        ptr = topo("faces", _GEO_FACET_PTR, "int", 1, nf)
        if ptr is None:
            if nfc != 3 * nf:
                raise FormatError("geogram: no facet_ptr, so %d triangles need %d corners, found %d" % (nf, 3 * nf, nfc))
            spans = [(3 * i, 3 * i + 3) for i in range(nf)]
        else:
            spans = split_by_ptr(ptr, nf, nfc, "facet")
        for a, b in spans:
            if b - a < 3:
                raise FormatError("geogram: facet with %d corners" % (b - a))
            out["faces"].append([idx(v, "facet corner") for v in cv[a:b]])
        adj = topo("face_corners", _GEO_FC_ADJ, "int", 1, nfc)
        if adj is not None:
            adjacency["corner_adjacent_facet"] = [-1 if v in (-1, NO_ID) else v for v in adj]
    elif nfc:
        raise FormatError("geogram: facet corners without facets")

    nc = sets.get(_GEO_SETS["cells"], 0)
    ncc = sets.get(_GEO_SETS["cell_corners"], 0)
    ncf = sets.get(_GEO_SETS["cell_faces"], None)
    cell_spans = []
    simplicial = True
    if nc:
        cv = topo("cell_corners", _GEO_CC_VERTEX, "int", 1, ncc)
        if cv is None:
            raise FormatError("geogram: cells without %r" % _GEO_CC_VERTEX)
        ctype = topo("cells", _GEO_CELL_TYPE, "int", 1, nc)
        cptr = topo("cells", _GEO_CELL_PTR, "int", 1, nc)
        if (ctype is None) != (cptr is None):
            raise FormatError("geogram: cell_type and cell_ptr come together")
        if cptr is None:
            if ncc != 4 * nc:
                raise FormatError("geogram: no cell_ptr, so %d tetrahedra need %d corners, found %d" % (nc, 4 * nc, ncc))
            cell_spans = [(4 * i, 4 * i + 4) for i in range(nc)]
        else:
            simplicial = False
            cell_spans = split_by_ptr(cptr, nc, ncc, "cell")
            for (a, b), t in zip(cell_spans, ctype):
                if t not in _GEO_ARITY_OF_CELL_TYPE:
                    raise FormatError("geogram: unknown cell type %d" % t)
                if t == 4:
                    raise FormatError("geogram: connector cells are not representable in the data model")
                if b - a != _GEO_ARITY_OF_CELL_TYPE[t]:
                    raise FormatError("geogram: cell of type %d with %d corners" % (t, b - a))
        for a, b in cell_spans:
            out["cells"].append([idx(v, "cell corner") for v in cv[a:b]])
        want = ncc if not simplicial else 4 * nc
        if ncf is not None and ncf != want:
            raise FormatError("geogram: %d cell facets declared, %d expected" % (ncf, want))
    elif ncc:
        raise FormatError("geogram: cell corners without cells")

    def unpad(rows):
        if simplicial:
            return rows
        res = []
        for (a, b), c in zip(cell_spans, out["cells"]):
            res += rows[a:a + _GEO_CELL_NFACETS[len(c)]]
        return res

    if nc:
        adj = topo("cell_faces", _GEO_CF_ADJ, "int", 1, ncf)
        if adj is not None:
            adjacency["adjacent_cell"] = [-1 if v in (-1, NO_ID) else v for v in unpad(adj)]

    unknown_sets = sorted(s for s in sets if s not in _GEO_SETS_INV)
    for (sname, aname), (typ, k, vals, tname) in parsed.items():
        if sname not in _GEO_SETS_INV:
            continue
        if aname in _GEO_RESERVED[sname]:
            continue
        n = sets[sname]
        rows = [vals[k * i] if k == 1 else vals[k * i:k * i + k] for i in range(n)]
        if sname == _GEO_SETS["cell_faces"]:
            rows = unpad(rows)
        out["attributes"].setdefault(_GEO_SETS_INV[sname], {})[aname] = {
            "type": typ, "arity": k, "values": rows, "geogram_type": tname}
    out["extra"] = {"version": version, "sets": dict(sets), "adjacency": adjacency,
                    "other_chunks": other_chunks, "unknown_sets": unknown_sets}
    _check_indices(out, "geogram")
    return out


# ---------------------------------------------------------------------------------------------------
# front door
# ---------------------------------------------------------------------------------------------------

_WRITERS = {"obj": _write_obj, "mesh": _write_medit, "geogram_ascii": _write_geogram, "off": _write_off,
            "tet": _write_tet, "xyz": _write_xyz, "stl": _write_stl}
_READERS = {"obj": _read_obj, "mesh": _read_medit, "geogram_ascii": _read_geogram, "off": _read_off,
            "tet": _read_tet, "xyz": _read_xyz}


def write(fmt, mesh, **opts):
    if fmt not in _WRITERS:
        raise ValueError("unknown format %r" % (fmt,))
    return _WRITERS[fmt](mesh, dict(opts))


def read(fmt, data):
    if fmt == "stl":
        return _read_stl(data)
    if fmt not in _READERS:
        raise ValueError("unknown format %r" % (fmt,))
    return _READERS[fmt](_decode(data))


def core(mesh):
    """the five data model keys only (drops "extra" and reader annotations), for comparisons"""
    A = {}
    for s, attrs in (mesh.get("attributes") or {}).items():
        for name, a in attrs.items():
            A.setdefault(s, {})[name] = {"type": a["type"], "arity": a["arity"], "values": a["values"]}
    return {"vertices": [list(p) for p in mesh.get("vertices") or []],
            "edges": [list(e) for e in mesh.get("edges") or []],
            "faces": [list(f) for f in mesh.get("faces") or []],
            "cells": [list(c) for c in mesh.get("cells") or []],
            "attributes": A}


def same(a, b):
    """bit-exact equality of two meshes on the data model keys (0.0 != -0.0, ints != floats in attributes)"""
    def key(x):
        if isinstance(x, bool):
            return ("b", x)
        if isinstance(x, float):
            return ("f", struct.pack("<d", x))
        if isinstance(x, int):
            return ("i", x)
        if isinstance(x, str):
            return ("s", x)
        if isinstance(x, (list, tuple)):
            return ("l", tuple(key(y) for y in x))
        if isinstance(x, dict):
            return ("d", tuple(sorted((k, key(v)) for k, v in x.items())))
        raise TypeError(type(x))
    return key(core(a)) == key(core(b))
