"""World generators for conforming tetrahedral meshes (independent of mouette)."""
import math

from .ref_volume import is_conforming_tet_mesh, lib_orientation, RefVolume

CUBE = [[0, 0, 0], [1, 0, 0], [1, 1, 0], [0, 1, 0], [0, 0, 1], [1, 0, 1], [1, 1, 1], [0, 1, 1]]


def single_tet():
    return [[0, 0, 0], [1, 0, 0], [0, 1, 0], [0, 0, 1]], [[0, 1, 2, 3]]


def two_tets():
    return [[0, 0, 0], [1, 0, 0], [0, 1, 0], [0, 0, 1], [0.8, 0.8, 0.8]], [[0, 1, 2, 3], [1, 2, 3, 4]]


def cube5():
    return [list(map(float, p)) for p in CUBE], [[0, 1, 3, 4], [1, 2, 3, 6], [1, 4, 5, 6], [3, 4, 6, 7], [1, 3, 4, 6]]


def kuhn(nx, ny, nz):
    """nx x ny x nz cubes, 6 tets per cube (Kuhn / Freudenthal: conforming across cubes)"""
    def vid(i, j, k):
        return (i * (ny + 1) + j) * (nz + 1) + k
    pts = [[float(i), float(j), float(k)] for i in range(nx + 1) for j in range(ny + 1) for k in range(nz + 1)]
    cells = []
    perms = [(0, 1, 2), (0, 2, 1), (1, 0, 2), (1, 2, 0), (2, 0, 1), (2, 1, 0)]
    for i in range(nx):
        for j in range(ny):
            for k in range(nz):
                for p in perms:
                    cur = [i, j, k]
                    tet = [vid(*cur)]
                    for ax in p:
                        cur[ax] += 1
                        tet.append(vid(*cur))
                    cells.append(tet)
    return pts, cells


def around_edge(n):
    """n tets sharing the edge (0,1): interior edge"""
    pts = [[0, 0, -1.0], [0, 0, 1.0]] + [[math.cos(2 * math.pi * i / n), math.sin(2 * math.pi * i / n), 0.0] for i in range(n)]
    cells = [[0, 1, 2 + i, 2 + (i + 1) % n] for i in range(n)]
    return pts, cells


def fan_edge(n):
    """n tets around the edge (0,1), not closing up: border edge with n cells"""
    pts = [[0, 0, -1.0], [0, 0, 1.0]] + [[math.cos(math.pi * i / (n + 1)), math.sin(math.pi * i / (n + 1)), 0.0] for i in range(n + 1)]
    cells = [[0, 1, 2 + i, 3 + i] for i in range(n)]
    return pts, cells


def octa8():
    pts = [[1, 0, 0], [-1, 0, 0], [0, 1, 0], [0, -1, 0], [0, 0, 1], [0, 0, -1], [0, 0, 0]]
    tris = [[0, 2, 4], [2, 1, 4], [1, 3, 4], [3, 0, 4], [2, 0, 5], [1, 2, 5], [3, 1, 5], [0, 3, 5]]
    return [list(map(float, p)) for p in pts], [t + [6] for t in tris]


def bary_split(pts, cells, ic):
    c = cells[ic]
    ctr = [sum(pts[v][k] for v in c) / 4 for k in range(3)]
    nv = len(pts)
    new = [[nv if j == i else c[j] for j in range(4)] for i in range(4)]
    return pts + [ctr], cells[:ic] + new + cells[ic + 1:]


def face_split(pts, cells, ic, i):
    """split the face of cell ic opposite its vertex i at its centre (both incident cells become 3 each)"""
    c = cells[ic]
    tri = [c[j] for j in range(4) if j != i]
    key = set(tri)
    ctr = [sum(pts[v][k] for v in tri) / 3 for k in range(3)]
    nv = len(pts)
    out = []
    for cc in cells:
        if key <= set(cc):
            for t in tri:
                out.append([nv if v == t else v for v in cc])
        else:
            out.append(cc)
    return pts + [ctr], out


def renumber(pts, cells, rng):
    n = len(pts)
    perm = list(range(n))
    rng.shuffle(perm)
    npts = [None] * n
    for o, nw in enumerate(perm):
        npts[nw] = pts[o]
    return npts, [[perm[v] for v in c] for c in cells]


def permute_cells(pts, cells, rng, mode):
    """mode 'positive': every cell positively oriented in the library's own convention;
    'negative': every cell negatively oriented; 'mixed': any vertex order"""
    out = []
    for c in cells:
        c = list(c)
        rng.shuffle(c)
        if mode in ("positive", "negative"):
            pos = lib_orientation(pts, c) > 0
            if pos != (mode == "positive"):
                c[0], c[1] = c[1], c[0]
        out.append(c)
    return out


def gen_tets(rng, size=20, orient=None):
    """random conforming tetrahedral mesh; returns (pts, cells, orient_mode)"""
    for _ in range(20):
        k = rng.choice(["single", "two", "cube5", "kuhn", "kuhn", "edge", "fan", "octa8"])
        if k == "single":
            p, c = single_tet()
        elif k == "two":
            p, c = two_tets()
        elif k == "cube5":
            p, c = cube5()
        elif k == "kuhn":
            mx = 1 if size < 12 else (2 if size < 60 else 3)
            dims = [rng.randint(1, mx) for _ in range(3)]
            while 6 * dims[0] * dims[1] * dims[2] > max(size, 6):
                dims[dims.index(max(dims))] -= 1
            p, c = kuhn(*dims)
        elif k == "edge":
            p, c = around_edge(rng.randint(3, 8))
        elif k == "fan":
            p, c = fan_edge(rng.randint(1, 6))
        else:
            p, c = octa8()
        for _m in range(rng.below(3)):
            if len(c) >= size:
                break
            if rng.chance(0.5):
                p, c = bary_split(p, c, rng.below(len(c)))
            else:
                p, c = face_split(p, c, rng.below(len(c)), rng.below(4))
        # remove a few cells sometimes (keeps conformity only if the validator says so)
        if len(c) > 3 and rng.chance(0.25):
            for _d in range(rng.randint(1, 3)):
                i = rng.below(len(c))
                cand = c[:i] + c[i + 1:]
                used = sorted({v for cc in cand for v in cc})
                m = {v: j for j, v in enumerate(used)}
                p2, c2 = [p[v] for v in used], [[m[v] for v in cc] for cc in cand]
                if c2 and is_conforming_tet_mesh(p2, c2):
                    p, c = p2, c2
        p = [[x + 0.03 * (rng.random() - 0.5), y + 0.03 * (rng.random() - 0.5), z + 0.03 * (rng.random() - 0.5)] for x, y, z in p]
        if rng.chance(0.6):
            p, c = renumber(p, c, rng)
        if rng.chance(0.6):
            c = list(c)
            rng.shuffle(c)
        mode = orient or rng.choice(["positive", "positive", "negative", "mixed"])
        c = permute_cells(p, c, rng, mode)
        if is_conforming_tet_mesh(p, c):
            return [[round(x, 6) for x in q] for q in p], c, mode
    p, c = single_tet()
    return [list(map(float, q)) for q in p], permute_cells(p, c, rng, "positive"), "positive"
