"""RefAABB - reference model of an axis-aligned box, with VALUE semantics.

A box is nothing but a pair (mini, maxi) of lists of Python floats.  Nothing here imports mouette
or numpy; every answer is computed from the two lists.  Written from the C12 statement:

  * the closed box is  { x : mini[k] <= x[k] <= maxi[k] for all k };  it is empty as a point set as
    soon as one dimension is inverted (mini[k] > maxi[k]);  a point box has mini == maxi;
  * the point-box distance in a norm is the norm of the componentwise excess
    max(mini - x, x - maxi, 0)   (only meaningful for a non-empty closed box);
  * the projection is the componentwise clamp;
  * the overlap of two boxes is (max of the minis, min of the maxis);  its extent is maxi - mini;
  * the hull (union box) is (min of the minis, max of the maxis);
  * the box of a point set is (componentwise min, componentwise max).
"""
import math


class RefAABB:
    __slots__ = ("mini", "maxi")

    def __init__(self, mini, maxi):
        self.mini = [float(x) for x in mini]
        self.maxi = [float(x) for x in maxi]
        if len(self.mini) != len(self.maxi):
            raise ValueError("RefAABB: corners of different dimension")

    def __repr__(self):
        return "RefAABB(%r, %r)" % (self.mini, self.maxi)

    @property
    def dim(self):
        return len(self.mini)

    def copy(self):
        return RefAABB(self.mini, self.maxi)

    def same_values(self, mini, maxi):
        """value equality (0.0 == -0.0; no NaN is ever stored in a box of this simulation)"""
        return list(mini) == self.mini and list(maxi) == self.maxi

    # ---- classification -------------------------------------------------------------------
    def finite(self):
        return all(math.isfinite(x) for x in self.mini + self.maxi)

    def inverted(self):
        """empty as a set of points: some dimension has mini > maxi"""
        return any(a > b for a, b in zip(self.mini, self.maxi))

    def nonempty(self):
        """the CLOSED box contains at least one point"""
        return all(a <= b for a, b in zip(self.mini, self.maxi))

    def is_point(self):
        return all(a == b for a, b in zip(self.mini, self.maxi))

    def strictly_inside(self, p):
        return all(a < x < b for a, x, b in zip(self.mini, p, self.maxi))

    def outside_closed(self, p):
        """p is not a point of the closed box (always true for an inverted box)"""
        return any(x < a or x > b for a, x, b in zip(self.mini, p, self.maxi))

    def in_closed(self, p, tol=0.0):
        return all(a - tol <= x <= b + tol for a, x, b in zip(self.mini, p, self.maxi))

    # ---- metric ---------------------------------------------------------------------------
    def clamp(self, p):
        return [min(max(x, a), b) for a, x, b in zip(self.mini, p, self.maxi)]

    def excess(self, p):
        # each entry is one correctly rounded subtraction (or 0); infinities behave (x - inf = -inf)
        return [max(a - x, x - b, 0.0) for a, x, b in zip(self.mini, p, self.maxi)]

    def distance(self, p, which="l2"):
        return vec_norm(self.excess(p), which)

    def magnitude(self, p=()):
        """largest finite |coordinate| among the corners (and p): the scale rounding errors live on"""
        m = 0.0
        for x in list(self.mini) + list(self.maxi) + list(p):
            if math.isfinite(x):
                m = max(m, abs(x))
        return m

    # ---- algebra --------------------------------------------------------------------------
    @staticmethod
    def overlap(b1, b2):
        return RefAABB([max(a, b) for a, b in zip(b1.mini, b2.mini)], [min(a, b) for a, b in zip(b1.maxi, b2.maxi)])

    def extent_nonneg(self):
        return all(b - a >= 0 if (math.isfinite(a) or math.isfinite(b)) else a <= b for a, b in zip(self.mini, self.maxi))

    @staticmethod
    def hull(b1, b2):
        return RefAABB([min(a, b) for a, b in zip(b1.mini, b2.mini)], [max(a, b) for a, b in zip(b1.maxi, b2.maxi)])

    def contains_box(self, other):
        """closed containment of a non-empty closed box"""
        return all(a <= c for a, c in zip(self.mini, other.mini)) and all(d <= b for d, b in zip(other.maxi, self.maxi))

    @staticmethod
    def of_points(points):
        pts = [list(map(float, p)) for p in points]
        d = len(pts[0])
        return RefAABB([min(p[k] for p in pts) for k in range(d)], [max(p[k] for p in pts) for k in range(d)])


def vec_norm(v, which="l2"):
    v = [abs(float(x)) for x in v]
    if not v:
        return 0.0
    if which == "l1":
        return math.fsum(v)
    if which == "linf":
        return max(v)
    if which == "l2":
        m = max(v)
        if m == 0.0 or math.isinf(m):
            return m
        # scaled to stay away from overflow/underflow whatever the magnitudes
        return m * math.sqrt(math.fsum((x / m) * (x / m) for x in v))
    raise ValueError(which)
