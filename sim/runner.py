"""Batch runner: seeded search over many simulated runs, in parallel, merged in seed order.
Writes evidence, minimises and replays violations, honours known findings."""
from __future__ import annotations

import collections
import concurrent.futures as cf
import faulthandler
import json
import multiprocessing as mp
import os
import subprocess
import sys
import time
import traceback

from . import engine
from .engine import (VERIF_DIR, RunResult, execute, load_known, make_cfg, match_known, minimise, run_seed)
from .rng import h64

EXIT_OK, EXIT_VIOLATION, EXIT_HARNESS = 0, 1, 2


def run_seed_no(base_seed: int, prop: str, i: int) -> int:
    # low bit = i's low bit so that even/odd (fault-free/faulted) alternate exactly
    return ((h64(base_seed, prop, i) >> 1) << 1 | (i & 1)) & ((1 << 62) - 1)


def _block(args):
    """worker: run a block of seeds, return compact per-run records."""
    sim_cls, base_seed, tier, lo, hi, known = args
    faulthandler.dump_traceback_later(600, exit=True)
    out = []
    try:
        for i in range(lo, hi):
            seed = run_seed_no(base_seed, sim_cls.PROP, i)
            t0 = time.perf_counter()
            try:
                r = run_seed(sim_cls, seed, tier, keep_events=(i % 997 == 0))
            except BaseException as e:  # harness error (incl. unexpected SimBudget)
                out.append({"i": i, "seed": seed, "harness_error": "".join(
                    traceback.format_exception(type(e), e, e.__traceback__))[-3000:]})
                continue
            rec = {"i": i, "seed": seed, "digest": r.digest, "steps": r.steps, "faults": r.faults,
                   "probes": r.probes, "ck": r.class_key, "sk": r.sched_key, "nt": r.nontrivial,
                   "faulted": r.faulted, "dt": time.perf_counter() - t0}
            if r.violation is not None:
                k = match_known(known, r.violation)
                rec["violation"] = r.violation.to_json()
                rec["known"] = k["id"] if k else None
            if r.events and i % 997 == 0:
                rec["sample"] = {"cfg": r.cfg, "events": r.events[:60]}
            out.append(rec)
    finally:
        faulthandler.cancel_dump_traceback_later()
    return out


def write_replay(prop, seed, cfg, events, sig, digest, detail, execs):
    rdir = os.environ.get("VERIF_REPLAY_DIR") or os.path.join(VERIF_DIR, "replays")
    os.makedirs(rdir, exist_ok=True)
    path = os.path.join(rdir, "%s-%d.json" % (prop, seed))
    with open(path, "w") as f:
        json.dump({"property": prop, "seed": seed, "cfg": cfg, "events": events, "expected_signature": sig,
                   "digest": digest, "detail": detail, "minimisation_executions": execs}, f, indent=1,
                  default=engine.canon)
    return path


def replay_file(sim_cls, path, quiet=False):
    with open(path) as f:
        rp = json.load(f)
    r = execute(sim_cls, rp["cfg"], rp["events"])
    same = r.violation is not None and r.violation.sig == rp["expected_signature"]
    if not quiet:
        print("replay %s: steps=%d digest=%s (recorded %s)" % (path, r.steps, r.digest[:16], rp.get("digest", "")[:16]))
        if r.violation is not None:
            print("  reproduced: %r" % (r.violation,))
        else:
            print("  no violation reproduced")
    return r, same, rp


def _fresh_replay_ok(prop, path):
    """Re-execute the minimised trace in a fresh interpreter; must fail identically (same signature)."""
    env = dict(os.environ)
    p = subprocess.run([sys.executable, os.path.join(VERIF_DIR, "check"), prop, "--replay", path, "--strict"],
                       capture_output=True, text=True, env=env, timeout=600)
    return p.returncode == EXIT_VIOLATION and ("VIOLATION property=%s" % prop) in p.stdout, p.stdout[-2000:] + p.stderr[-2000:]


class _V:
    """minimal stand-in for engine.Violation (signature only) for match_known"""
    def __init__(self, sig):
        self.sig = sig


def _fresh_seed_run(prop, seed, tier):
    """execute ONE run seed alone in a fresh interpreter; returns {"cfg","events","violation"} or None"""
    import tempfile
    fd, path = tempfile.mkstemp(suffix=".json")
    os.close(fd)
    try:
        subprocess.run([sys.executable, os.path.join(VERIF_DIR, "check"), prop, "--seed-run", str(seed), "--tier", tier, "--emit", path],
                       capture_output=True, text=True, env=dict(os.environ), timeout=600)
        with open(path) as f:
            return json.load(f)
    except Exception:
        return None
    finally:
        try:
            os.remove(path)
        except OSError:
            pass


def _fresh_minimise(prop, seed, cfg, events, sig, detail, budget=40):
    """History-dependent code under test (process-wide state): every candidate is judged in a FRESH interpreter.  Coarse ddmin."""
    def ok(evs):
        path = write_replay(prop, seed, cfg, evs, sig, "", detail, 0)
        return _fresh_replay_ok(prop, path)[0]
    if not ok(events):
        return None
    budget -= 1
    n = 2
    while len(events) >= 2 and budget > 0:
        chunk = max(1, len(events) // n)
        reduced = False
        for start in range(0, len(events), chunk):
            cand = events[:start] + events[start + chunk:]
            if not cand or budget <= 0:
                continue
            budget -= 1
            if ok(cand):
                events, n, reduced = cand, max(n - 1, 2), True
                break
        if not reduced:
            if chunk == 1:
                break
            n = min(len(events), n * 2)
    path = write_replay(prop, seed, cfg, events, sig, "", detail, 40 - budget)
    return path, events


def batch(sim_cls, tier: str, base_seed: int, runs: int = None, workers: int = None, wall_cap: float = None,
          write_evidence=True):
    prop = sim_cls.PROP
    t_start = time.time()
    if runs is None:
        runs = sim_cls.QUICK_RUNS if tier == "quick" else sim_cls.THOROUGH_RUNS
    runs = int(os.environ.get("VERIF_RUNS", runs))
    workers = int(os.environ.get("VERIF_WORKERS", workers or min(16, os.cpu_count() or 1)))
    if wall_cap is None:
        wall_cap = float(os.environ.get("VERIF_WALL", 100 if tier == "quick" else 3300))
    known = load_known(prop)
    block = sim_cls.BLOCK
    tasks = [(sim_cls, base_seed, tier, lo, min(lo + block, runs), known) for lo in range(0, runs, block)]
    records = []
    truncated = False
    harness_errors = []
    ctx = mp.get_context("fork")
    with cf.ProcessPoolExecutor(max_workers=workers, mp_context=ctx) as ex:
        futs = [ex.submit(_block, t) for t in tasks]
        try:
            for fu in futs:
                left = wall_cap - (time.time() - t_start)
                if left <= 0:
                    truncated = True
                    break
                try:
                    records.extend(fu.result(timeout=left + 5))
                except cf.TimeoutError:
                    truncated = True
                    break
                except Exception as e:  # dead worker etc.
                    harness_errors.append("worker failure: %r" % (e,))
                    break
        finally:
            for fu in futs:
                fu.cancel()
            if truncated or harness_errors:
                for p in list(getattr(ex, "_processes", {}).values()):
                    try:
                        p.kill()
                    except Exception:
                        pass
    records.sort(key=lambda r: r["i"])
    for r in records:
        if "harness_error" in r:
            harness_errors.append("run i=%d seed=%d: %s" % (r["i"], r["seed"], r["harness_error"]))
    good = [r for r in records if "harness_error" not in r]

    # ---- aggregate ------------------------------------------------------------------
    faults = collections.Counter()
    probes = collections.Counter()
    steps_total = 0
    class_keys, sched_keys, pairs = set(), set(), set()
    nontrivial = 0
    fault_free = faulted = 0
    known_hits = collections.Counter()
    viol = []
    samples = []
    for r in good:
        faults.update(r["faults"])
        probes.update(r["probes"])
        steps_total += r["steps"]
        if r["nt"]:
            nontrivial += 1
            class_keys.add(r["ck"])
            sched_keys.add(r["sk"])
            pairs.add((r["ck"], r["sk"]))
        if r["faulted"]:
            faulted += 1
        else:
            fault_free += 1
        if "violation" in r:
            if r["known"]:
                known_hits[r["known"]] += 1
            else:
                viol.append(r)
        if "sample" in r and len(samples) < 3:
            samples.append({"seed": r["seed"], "cfg": r["sample"]["cfg"], "events": r["sample"]["events"]})

    # ---- determinism recheck: re-execute a sample of seeds in this process ------------
    det_n = 0
    det_mismatch = []
    if good and not harness_errors:
        k = max(3, min(40, len(good) // 100))
        stride = max(1, len(good) // k)
        for r in good[::stride][:k]:
            try:
                r2 = run_seed(sim_cls, r["seed"], tier, keep_events=True)
                det_n += 1
                if r2.digest != r["digest"]:
                    det_mismatch.append(r["seed"])
                else:
                    # replaying the recorded trace must give the same log as generating it
                    r3 = execute(sim_cls, r2.cfg, r2.events)
                    if r3.digest != r2.digest:
                        det_mismatch.append(("trace", r["seed"]))
                if len(samples) < 2:
                    samples.append({"seed": r["seed"], "cfg": r2.cfg, "events": r2.events[:60]})
            except BaseException as e:
                harness_errors.append("determinism recheck seed %d: %r" % (r["seed"], e))
    nondet_note = None
    if det_mismatch:
        nondet_note = "nondeterminism: digests differ on re-execution for seeds %r" % (det_mismatch[:5],)
        if not viol:
            harness_errors.append(nondet_note)
        # with violations present, the verdict is decided by the replays below: a violation that reproduces from its file in a FRESH
        # interpreter is a verdict whatever else happened (code under test that keeps process-global state between runs - a module-level
        # cache, a class attribute shared by instances - makes runs depend on their predecessors in the worker, hence the digest mismatch)

    # ---- violations: minimise, replay in a fresh interpreter, report -------------------
    reported = []
    pending_notes = []
    fresh_tried, fresh_seen = [0], set()
    history_dependent = []
    examples = collections.defaultdict(list)

    def _fresh_path(sig):
        """runs depend on their predecessors in the process (the code under test keeps process-wide state): a verdict needs a run that
        violates the property when executed ALONE in a fresh interpreter; it is then minimised with one fresh interpreter per candidate"""
        if fresh_tried[0] >= 24 or len(reported) >= 2:
            return False
        for rr in examples[tuple(sig)][:6]:
            if rr["seed"] in fresh_seen:
                continue
            fresh_seen.add(rr["seed"])
            fresh_tried[0] += 1
            got1 = _fresh_seed_run(prop, rr["seed"], tier)
            if not got1 or not got1.get("violation"):
                continue
            fsig, fdetail = got1["violation"]["signature"], got1["violation"]["detail"]
            if match_known(known, _V(fsig)):
                continue
            got = _fresh_minimise(prop, rr["seed"], got1["cfg"], got1["events"], fsig, fdetail)
            if got:
                reported.append({"signature": fsig, "seed": rr["seed"], "replay": got[0], "events": len(got[1]),
                                 "events_before": len(got1["events"]), "detail": fdetail[:600] +
                                 "\n(the code under test keeps state between the runs of one process; judged and minimised in fresh interpreters)"})
                return True
        pending_notes.append("signature %r: no run violated the property when executed alone in a fresh interpreter" % (list(sig),))
        return False
    if viol and not harness_errors:
        by_sig = collections.OrderedDict()
        for r in viol:
            by_sig.setdefault(tuple(r["violation"]["signature"]), r)
            examples[tuple(r["violation"]["signature"])].append(r)
        for sig, r in list(by_sig.items())[:(8 if det_mismatch else 4)]:
            sig = list(sig)
            try:
                if det_mismatch:
                    _fresh_path(sig)
                    continue
                cfg = make_cfg(sim_cls, r["seed"], tier)
                full = execute(sim_cls, cfg, None)
                if full.violation is None or full.violation.sig != sig:
                    # the run behaved differently when executed again in this process: history-dependent code under test
                    history_dependent.append(sig)
                    pending_notes.append("violation of seed %d did not reproduce on regeneration" % r["seed"])
                    continue
                mcfg, mevents, execs = minimise(sim_cls, cfg, full.events, sig)
                final = execute(sim_cls, mcfg, mevents)
                path = write_replay(prop, r["seed"], mcfg, mevents, sig, final.digest,
                                    final.violation.detail if final.violation else "", execs)
                ok, out = _fresh_replay_ok(prop, path)
                if not ok:
                    history_dependent.append(sig)
                    pending_notes.append("minimised replay %s did not reproduce in a fresh interpreter:\n%s" % (path, out))
                    continue
                reported.append({"signature": sig, "seed": r["seed"], "replay": path, "events": len(mevents),
                                 "events_before": len(full.events), "detail": (final.violation.detail or "")[:600]})
            except BaseException as e:
                harness_errors.append("minimisation failed for seed %d: %s" % (
                    r["seed"], "".join(traceback.format_exception(type(e), e, e.__traceback__))[-2000:]))

    if history_dependent and not harness_errors:
        for sig in history_dependent:
            _fresh_path(sig)
    if (det_mismatch or history_dependent) and viol and not reported:
        # nothing reproducible came out of it: no verdict
        if nondet_note:
            harness_errors.append(nondet_note)
        harness_errors.extend(pending_notes)
    wall = time.time() - t_start
    n = len(good)
    ev = {
        "property_id": prop, "tier": tier, "seed": int(base_seed), "level": "exploration",
        "coverage": {
            "evaluations": max(n, 1) if n else 1,
            "distinct_nontrivial": len(pairs),
            "rule": sim_cls.RULE,
            "samples": samples or [{"note": "no run completed"}],
            "distinct_world_classes": len(class_keys),
            "distinct_interleavings": len(sched_keys),
        },
        "assumptions": list(getattr(sim_cls, "ASSUMPTIONS", [])),
        "wall_s": round(wall, 2),
        "violations": len(reported),
        "runs": n, "runs_requested": runs, "truncated_by_wall_cap": truncated,
        "seed_first": good[0]["seed"] if good else None, "seed_last": good[-1]["seed"] if good else None,
        "runs_per_hour": int(n / wall * 3600) if wall > 0 else 0,
        "workers": workers,
        "steps_total": steps_total,
        "simulated_time": "n/a - mouette has no clock, timer or deadline; logical steps (scheduled API calls) are reported instead",
        "fault_kinds": sim_cls.FAULT_KINDS,
        "faults_injected": {k: faults.get(k, 0) for k in sim_cls.FAULT_KINDS} | dict(faults),
        "fault_free_runs": fault_free, "faulted_runs": faulted,
        "nontrivial_runs": nontrivial,
        "probes": {k: probes.get(k, 0) for k in sim_cls.PROBES} | dict(probes),
        "components": sim_cls.COMPONENTS,
        "determinism_recheck": {"seeds": det_n, "mismatches": len(det_mismatch), "note": nondet_note},
        "known_findings_hit": dict(known_hits),
        "known_findings_listed": [k["id"] for k in known],
        "violations_found": reported,
        "unminimised_violation_runs": len(viol),
        "harness_errors": harness_errors[:5],
    }
    if write_evidence and not os.environ.get("VERIF_NO_EVIDENCE"):
        os.makedirs(os.path.join(VERIF_DIR, "evidence"), exist_ok=True)
        with open(os.path.join(VERIF_DIR, "evidence", prop + ".json"), "w") as f:
            json.dump(ev, f, indent=1, default=engine.canon)

    print("%s tier=%s base_seed=%d runs=%d/%d steps=%d wall=%.1fs (%.0f runs/h) classes=%d interleavings=%d" % (
        prop, tier, base_seed, n, runs, steps_total, wall, ev["runs_per_hour"], len(class_keys), len(sched_keys)))
    print("  faults fired: %s" % dict(faults))
    zero = [p for p in sim_cls.PROBES if probes.get(p, 0) == 0]
    print("  probes: %s%s" % (dict(probes), ("  ZERO: %s" % zero) if zero else ""))
    for k in known:
        print("KNOWN-FINDING: property=%s %s [%s in known_findings.json; hit in %d runs]" % (prop, k["what"][:230], k["id"], known_hits.get(k["id"], 0)))
    if harness_errors:
        print("HARNESS-ERROR (no verdict):")
        for h in harness_errors[:5]:
            print("  " + h.replace("\n", "\n    "))
        return EXIT_HARNESS
    if reported:
        for v in reported:
            print("  signature=%s seed=%d events %d->%d\n  %s" % ("|".join(map(str, v["signature"])), v["seed"],
                                                                  v["events_before"], v["events"], v["detail"].replace("\n", "\n  ")))
            print("VIOLATION property=%s replay=%s" % (prop, v["replay"]))
        return EXIT_VIOLATION
    if truncated:
        print("  note: wall cap hit; %d of %d runs executed (recorded as truncated in evidence)" % (n, runs))
    return EXIT_OK


def main(argv, registry):
    import argparse
    ap = argparse.ArgumentParser()
    ap.add_argument("prop")
    ap.add_argument("--tier", default=os.environ.get("VERIF_TIER", "quick"), choices=["quick", "thorough"])
    ap.add_argument("--replay")
    ap.add_argument("--strict", action="store_true", help="with --replay: exit 1 only if the recorded signature itself is reproduced")
    ap.add_argument("--seed-run", type=int, help="run one raw run seed verbosely")
    ap.add_argument("--emit", help="with --seed-run: write {cfg, events, violation} as JSON to this path")
    ap.add_argument("--runs", type=int)
    ap.add_argument("--digests", action="store_true", help="print per-run digests (determinism self-test)")
    ap.add_argument("--survey", action="store_true", help="triage aid: list every distinct violation signature with counts (no minimisation, no verdict)")
    a = ap.parse_args(argv)
    sim_cls = registry(a.prop)
    base_seed = int(os.environ.get("VERIF_SEED", "20261001"))
    if a.replay:
        r, same, rp = replay_file(sim_cls, a.replay)
        if same:
            print("VIOLATION property=%s replay=%s" % (a.prop, a.replay))
            return EXIT_VIOLATION
        if r.violation is not None and not a.strict:
            print("different violation than recorded: %r" % (r.violation,))
            print("VIOLATION property=%s replay=%s" % (a.prop, a.replay))
            return EXIT_VIOLATION
        return EXIT_OK
    if a.seed_run is not None:
        r = run_seed(sim_cls, a.seed_run, a.tier, keep_events=True)
        if a.emit:
            with open(a.emit, "w") as f:
                json.dump({"cfg": r.cfg, "events": r.events, "violation": r.violation.to_json() if r.violation else None}, f, default=engine.canon)
        print(json.dumps({"cfg": r.cfg, "events": r.events}, default=engine.canon)[:6000])
        print("digest", r.digest, "steps", r.steps, "violation", r.violation)
        return EXIT_VIOLATION if r.violation else EXIT_OK
    if a.survey:
        import collections
        n = a.runs or 1000
        known = load_known(a.prop)
        ctx = mp.get_context("fork")
        tasks = [(sim_cls, base_seed, a.tier, lo, min(lo + sim_cls.BLOCK, n), known) for lo in range(0, n, sim_cls.BLOCK)]
        sigs = collections.Counter()
        ex1 = {}
        with cf.ProcessPoolExecutor(max_workers=min(16, os.cpu_count() or 1), mp_context=ctx) as ex:
            for recs in ex.map(_block, tasks):
                for r in recs:
                    if "harness_error" in r:
                        sigs[("HARNESS", r["harness_error"].strip().splitlines()[-1][:150])] += 1
                        ex1.setdefault(("HARNESS", r["harness_error"].strip().splitlines()[-1][:150]), (r["seed"], ""))
                    elif "violation" in r:
                        k = tuple(r["violation"]["signature"][1:]) + (("known:" + r["known"],) if r.get("known") else ())
                        sigs[k] += 1
                        ex1.setdefault(k, (r["seed"], r["violation"]["detail"][:300]))
        for k, c in sorted(sigs.items(), key=lambda kv: -kv[1]):
            print("%6d  %s\n          seed=%s %s" % (c, " | ".join(map(str, k)), ex1[k][0], ex1[k][1].replace("\n", " ")[:260]))
        print("%d runs, %d distinct signatures" % (n, len(sigs)))
        return EXIT_OK
    if a.digests:
        n = a.runs or 200
        for i in range(n):
            s = run_seed_no(base_seed, a.prop, i)
            r = run_seed(sim_cls, s, a.tier)
            print(s, r.digest, r.violation.sig if r.violation else "-")
        return EXIT_OK
    return batch(sim_cls, a.tier, base_seed, runs=a.runs)
