"""Simulator-owned PRNG: SplitMix64.  Not random.Random (whose derived methods have
changed between Python versions).  fork(label) gives an independent sub-stream, so
adding a draw in one component can never shift another component's stream."""
import hashlib

M64 = (1 << 64) - 1


def h64(*parts) -> int:
    """Stable 64-bit hash of a tuple of ints/strs (independent of PYTHONHASHSEED)."""
    m = hashlib.blake2b(digest_size=8)
    for p in parts:
        m.update(repr(p).encode())
        m.update(b"\x1f")
    return int.from_bytes(m.digest(), "big")


class Rng:
    __slots__ = ("s",)

    def __init__(self, seed: int):
        self.s = seed & M64

    def fork(self, label) -> "Rng":
        return Rng(h64(self.s, "fork", label))

    def u64(self) -> int:
        self.s = (self.s + 0x9E3779B97F4A7C15) & M64
        z = self.s
        z = ((z ^ (z >> 30)) * 0xBF58476D1CE4E5B9) & M64
        z = ((z ^ (z >> 27)) * 0x94D049BB133111EB) & M64
        return z ^ (z >> 31)

    def random(self) -> float:
        return (self.u64() >> 11) / float(1 << 53)

    def below(self, n: int) -> int:
        """uniform in [0, n)"""
        if n <= 0:
            raise ValueError("below(%r)" % (n,))
        return self.u64() % n  # bias negligible for the n used here

    def randint(self, a: int, b: int) -> int:
        """uniform in [a, b] inclusive"""
        return a + self.below(b - a + 1)

    def chance(self, p: float) -> bool:
        return self.random() < p

    def choice(self, seq):
        return seq[self.below(len(seq))]

    def wchoice(self, items, weights):
        tot = float(sum(weights))
        x = self.random() * tot
        acc = 0.0
        for it, w in zip(items, weights):
            acc += w
            if x < acc:
                return it
        return items[-1]

    def shuffle(self, lst):
        for i in range(len(lst) - 1, 0, -1):
            j = self.below(i + 1)
            lst[i], lst[j] = lst[j], lst[i]
        return lst

    def sample(self, seq, k):
        l = list(seq)
        self.shuffle(l)
        return l[:k]

    def subset(self, seq, p=0.5, at_least=0):
        out = [x for x in seq if self.chance(p)]
        if len(out) < at_least:
            rest = [x for x in seq if x not in out]
            self.shuffle(rest)
            out += rest[: at_least - len(out)]
        return out

    def uniform(self, a: float, b: float) -> float:
        return a + (b - a) * self.random()

    def gauss(self) -> float:
        # Box-Muller, own implementation
        import math
        u1 = max(self.random(), 1e-300)
        u2 = self.random()
        return math.sqrt(-2.0 * math.log(u1)) * math.cos(2 * math.pi * u2)
