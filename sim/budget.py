"""Deterministic *step budget* seam (DESIGN.md section 2.2, "step budget (liveness)").

mouette has no clock and no deadline, so bounded liveness ("building the tree finishes") is
stated in *interpreter steps*, never in seconds:

    one step = one Python function entry (PY_START) or one loop back-edge (a JUMP whose
               destination offset is smaller than its source offset) executed by a code object
               that belongs to the ``mouette`` package.

Steps are counted with Python 3.12's ``sys.monitoring`` *local* events, installed on exactly the
code objects of the package (enumerated once, after import: module dicts, classes, properties,
static/class methods, wrapped functions, nested code constants).  numpy, the standard library and
the harness itself are never instrumented, so the count is a pure function of (mouette source,
arguments, PRNG state) - it does not depend on the machine, the load, or the worker count.

    with StepBudget(limit) as b:
        out = call(KDTree, pts, 5, "balanced")     # engine.call lets SimBudget through
    b.steps                                         # steps consumed by the block

When the count exceeds ``limit`` the monitoring callback raises ``engine.SimBudget`` (a
BaseException, so ``except Exception`` inside the library cannot swallow it) *inside the monitored
frame*; it propagates out of the library call like any exception.  After the first trip the budget
is extended by GRACE steps at a time and raises again each time that allowance is used up, so that
``finally`` blocks may run but a loop that swallows BaseException is still stopped.

Measured on the pinned tree (python 3.12.1, ~960 code objects): enumerating + registering 7 ms once per
process; switching the events on and off 1.6 ms per ``with`` block (amortised by ``hold()``); 0.35-0.5 us per
step while counting (KDTree build of 1500 points: 8.8 ms -> 11.4 ms for 5365 steps; 20-NN query: 4.0 ms ->
6.9 ms for 8245 steps, i.e. 1.3x-1.7x on pure-Python-heavy calls); nothing outside.  ``KDTree(np.zeros((12,3)), max_leaf_size=5)`` - which never
returns - is stopped at exactly the same step every time (limit + 1), e.g. after 25041 steps in 65 ms.

Outside a ``with`` block the local events are switched off again (code objects run uninstrumented:
zero overhead) unless a ``hold()`` block is open (see there).  One budget at a time: nesting raises
RuntimeError (a harness error).
"""
from __future__ import annotations

import os
import sys
import types

from .engine import SimBudget

GRACE = 2000
TOOL_NAME = "verif-step-budget"

_mon = sys.monitoring
_E = _mon.events
_EVENTS = _E.PY_START | _E.JUMP

_tool_id = None
_codes = None          # list of code objects of the mouette package
_enabled = False
_active = None         # the StepBudget currently counting
_holds = 0             # number of open hold() blocks (events stay switched on between budgets)
# [count, next_trip, limit] - a list (not attributes) keeps the callbacks short and fast
_st = [0, 1 << 62, 1 << 62]


# ----------------------------------------------------------------------------------------
# callbacks
# ----------------------------------------------------------------------------------------
def _trip(c):
    st = _st
    st[1] = c + GRACE
    b = _active
    if b is not None:
        b.tripped += 1
    raise SimBudget("step budget exceeded: %d steps > limit %d" % (c, st[2]))


def _on_start(code, offset):
    st = _st
    c = st[0] + 1
    st[0] = c
    if c > st[1]:
        _trip(c)


def _on_jump(code, src, dst):
    if dst < src:  # loop back-edge
        st = _st
        c = st[0] + 1
        st[0] = c
        if c > st[1]:
            _trip(c)


# ----------------------------------------------------------------------------------------
# enumeration of the package's code objects
# ----------------------------------------------------------------------------------------
def _walk_code(co, out, seen):
    if id(co) in seen:
        return
    seen.add(id(co))
    out.append(co)
    for k in co.co_consts:
        if isinstance(k, types.CodeType):
            _walk_code(k, out, seen)


def enumerate_codes(package="mouette"):
    """Every code object defined by the package: functions in module dicts, methods / properties /
    static+class methods of its classes (incl. nested and dataclass-generated ones), wrapped
    functions, and all nested code constants (lambdas, inner functions, generators)."""
    __import__(package)
    root = os.path.dirname(os.path.abspath(sys.modules[package].__file__)) + os.sep
    out, seen_code, seen_obj = [], set(), set()

    def ours_fn(f):
        co = getattr(f, "__code__", None)
        if not isinstance(co, types.CodeType):
            return False
        if os.path.abspath(co.co_filename).startswith(root):
            return True
        mod = getattr(f, "__module__", None) or ""
        # exec-generated methods (dataclasses) have a synthetic filename but the owner's module
        return co.co_filename.startswith("<") and (mod == package or mod.startswith(package + "."))

    def visit(obj, depth=0):
        if id(obj) in seen_obj or depth > 6:
            return
        if isinstance(obj, (staticmethod, classmethod)):
            visit(obj.__func__, depth + 1)
            return
        if isinstance(obj, property):
            for f in (obj.fget, obj.fset, obj.fdel):
                if f is not None:
                    visit(f, depth + 1)
            return
        if isinstance(obj, types.FunctionType):
            seen_obj.add(id(obj))
            if ours_fn(obj):
                _walk_code(obj.__code__, out, seen_code)
            w = getattr(obj, "__wrapped__", None)
            if w is not None:
                visit(w, depth + 1)
            return
        if isinstance(obj, type):
            mod = getattr(obj, "__module__", "") or ""
            if not (mod == package or mod.startswith(package + ".")):
                return
            seen_obj.add(id(obj))
            for v in list(vars(obj).values()):
                visit(v, depth + 1)
            return
        f = getattr(obj, "func", None)  # functools.partial and friends
        if isinstance(f, types.FunctionType):
            visit(f, depth + 1)

    for name in sorted(sys.modules):
        if name == package or name.startswith(package + "."):
            m = sys.modules[name]
            if m is None:
                continue
            for v in list(vars(m).values()):
                visit(v)
    return out


# ----------------------------------------------------------------------------------------
# install / enable / disable
# ----------------------------------------------------------------------------------------
def _install():
    global _tool_id, _codes
    if _tool_id is not None:
        return
    tid = None
    for cand in (4, 3, 2, 1, 0, 5):
        if _mon.get_tool(cand) is None:
            tid = cand
            break
    if tid is None:
        raise RuntimeError("no free sys.monitoring tool id for the step budget")
    _mon.use_tool_id(tid, TOOL_NAME)
    _mon.register_callback(tid, _E.PY_START, _on_start)
    _mon.register_callback(tid, _E.JUMP, _on_jump)
    _codes = enumerate_codes("mouette")
    _tool_id = tid


def _set_events(mask):
    sle, tid = _mon.set_local_events, _tool_id
    for co in _codes:
        sle(tid, co, mask)


def n_code_objects():
    _install()
    return len(_codes)


def uninstall():
    """Release the tool id (tests only)."""
    global _tool_id, _codes, _enabled
    if _tool_id is None:
        return
    if _enabled:
        _set_events(0)
        _enabled = False
    _mon.register_callback(_tool_id, _E.PY_START, None)
    _mon.register_callback(_tool_id, _E.JUMP, None)
    _mon.free_tool_id(_tool_id)
    _tool_id, _codes = None, None


class StepBudget:
    """Context manager: count mouette steps, raise SimBudget beyond ``limit`` (None = count only)."""

    def __init__(self, limit=None):
        self.limit = (1 << 62) if limit is None else int(limit)
        self._steps = 0
        self.tripped = 0

    @property
    def steps(self):
        """steps consumed so far (live inside the block, final after it)"""
        return _st[0] if _active is self else self._steps

    @property
    def exceeded(self):
        return self.tripped > 0

    def __enter__(self):
        global _active, _enabled
        _install()
        if _active is not None:
            raise RuntimeError("StepBudget is not re-entrant: one budget at a time")
        _active = self
        self._steps = 0
        self.tripped = 0
        _st[0] = 0
        _st[1] = self.limit
        _st[2] = self.limit
        if not _enabled:
            _set_events(_EVENTS)
            _enabled = True
        return self

    def __exit__(self, et, ev, tb):
        global _active, _enabled
        self._steps = _st[0]
        _st[1] = 1 << 62
        _active = None
        if _enabled and _holds == 0:
            _set_events(0)
            _enabled = False
        return False


class hold:
    """Keep the package instrumented across several StepBudget blocks (e.g. one simulated run):
    switching ~10^3 code objects on and off costs ~1.5 ms, which a run with dozens of budgeted calls
    should pay once, not per call.  Between budgets the callbacks only bump a counter nobody reads.
    Leaving the outermost hold switches the events off again."""

    def __enter__(self):
        global _holds, _enabled
        _install()
        _holds += 1
        if not _enabled:
            _set_events(_EVENTS)
            _enabled = True
        return self

    def __exit__(self, et, ev, tb):
        global _holds, _enabled
        _holds -= 1
        if _holds == 0 and _active is None and _enabled:
            _set_events(0)
            _enabled = False
        return False
