"""Deterministic simulation engine for the mouette properties.

One integer (the run seed) decides a whole run: swarm configuration, world, the
clients' programs, the schedule and the fault plan.  A run is recorded as
(cfg, events); replaying that pair involves no PRNG of ours at all.

Vocabulary (DESIGN.md section 1): a *client* is a seeded program of public API calls on
shared objects; the *scheduler* picks which client performs its next call; *faults* are
operations/perturbations the properties license (rejected calls, cache drops, re-wraps,
global-state flips, adversarial random outcomes, lexical file perturbations).
"""
from __future__ import annotations

import collections
import hashlib
import json
import math
import os
import random as _pyrandom
import sys
import time
import traceback
import warnings

import numpy as np

from .rng import Rng, h64

VERIF_DIR = os.path.dirname(os.path.dirname(os.path.abspath(__file__)))


# ----------------------------------------------------------------------------------------
# violations
# ----------------------------------------------------------------------------------------
class Violation:
    """(property, clause, op, kind, site, argclass) is the *signature*; detail is free text."""

    def __init__(self, prop, clause, op, kind, site="", argclass="", detail=""):
        self.prop, self.clause, self.op, self.kind = prop, clause, op, kind
        self.site, self.argclass, self.detail = site, argclass, detail
        self.step = None

    @property
    def sig(self):
        return [self.prop, self.clause, self.op, self.kind, self.site, self.argclass]

    def to_json(self):
        return {"signature": self.sig, "detail": self.detail[:2000], "step": self.step}

    def __repr__(self):
        return "Violation(%s) %s" % ("|".join(map(str, self.sig)), self.detail[:300])


class ViolationFound(Exception):
    def __init__(self, v: Violation):
        super().__init__(repr(v))
        self.v = v


class SimBudget(BaseException):
    """Raised by the step counter when a single library call exceeds its step budget."""


class HarnessError(Exception):
    pass


# ----------------------------------------------------------------------------------------
# outcome of one library call
# ----------------------------------------------------------------------------------------
class Outcome:
    __slots__ = ("ok", "value", "exc", "site", "tb")

    def __init__(self, ok, value=None, exc=None, site="", tb=""):
        self.ok, self.value, self.exc, self.site, self.tb = ok, value, exc, site, tb

    @property
    def kind(self):
        return "value" if self.ok else "exception:" + type(self.exc).__name__

    def brief(self):
        if self.ok:
            return "ok"
        return "exc:%s@%s" % (type(self.exc).__name__, self.site)


def _mouette_site(tb):
    """innermost frame inside the mouette package -> 'module:function'"""
    site = ""
    while tb is not None:
        fn = tb.tb_frame.f_code.co_filename
        if os.sep + "mouette" + os.sep in fn:
            mod = fn.split(os.sep + "mouette" + os.sep, 1)[1]
            if mod.endswith(".py"):
                mod = mod[:-3]
            site = "%s:%s" % (mod.replace(os.sep, "."), tb.tb_frame.f_code.co_name)
        tb = tb.tb_next
    return site


def call(fn, *args, **kwargs) -> Outcome:
    """Run real library code; every Exception is an *outcome*, never a harness failure.
    SimBudget (BaseException) passes through to the engine."""
    try:
        return Outcome(True, fn(*args, **kwargs))
    except Exception as e:  # noqa: BLE001 - by design
        tb = e.__traceback__
        site = _mouette_site(tb)
        return Outcome(False, None, e, site, "".join(traceback.format_exception(type(e), e, tb))[-1500:])


# ----------------------------------------------------------------------------------------
# canonical JSON (hash-seed independent) for logs and digests
# ----------------------------------------------------------------------------------------
def canon(x):
    """Convert to plain JSON-able data, deterministically (sets sorted, numpy unwrapped)."""
    if x is None or isinstance(x, (bool, str)):
        return x
    if isinstance(x, (int,)):
        return int(x)
    if isinstance(x, float):
        if math.isnan(x):
            return "nan"
        if math.isinf(x):
            return "inf" if x > 0 else "-inf"
        return x
    if isinstance(x, complex):
        return ["complex", canon(x.real), canon(x.imag)]
    if isinstance(x, np.generic):
        return canon(x.item())
    if isinstance(x, np.ndarray):
        return canon(x.tolist())
    if isinstance(x, (list, tuple)):
        return [canon(y) for y in x]
    if isinstance(x, (set, frozenset)):
        return sorted((canon(y) for y in x), key=lambda v: json.dumps(v, sort_keys=True))
    if isinstance(x, dict):
        return {str(k): canon(v) for k, v in sorted(x.items(), key=lambda kv: str(kv[0]))}
    return repr(type(x).__name__)


def jdump(x) -> str:
    return json.dumps(canon(x), sort_keys=True, separators=(",", ":"))


# ----------------------------------------------------------------------------------------
# process-global state seam
# ----------------------------------------------------------------------------------------
_CONFIG_KEYS = ("complete_edges_from_faces", "complete_faces_from_cells", "export_edges_in_obj",
                "sort_neighborhoods", "display_duplicate_attribute_warning")


class GlobalState:
    """Snapshot / restore of every process-global the library reads or writes."""

    def __enter__(self):
        import mouette
        self._cfgmod = mouette.config
        self.err = np.geterr()
        self.nprs = np.random.get_state()
        self.pyrs = _pyrandom.getstate()
        self.cfg = {k: getattr(self._cfgmod, k) for k in _CONFIG_KEYS}
        self._w = warnings.catch_warnings(record=True)
        self.warnings = self._w.__enter__()
        warnings.simplefilter("always")
        return self

    def __exit__(self, *a):
        self._w.__exit__(*a)
        np.seterr(**self.err)
        np.random.set_state(self.nprs)
        _pyrandom.setstate(self.pyrs)
        for k, v in self.cfg.items():
            setattr(self._cfgmod, k, v)
        return False


def reseed_globals(run_seed: int, uid):
    """per_call PRNG seam: what a call sees depends on its uid, not on its position."""
    s = h64(run_seed, "call", uid)
    np.random.seed(s & 0xFFFFFFFF)
    _pyrandom.seed(s)


# ----------------------------------------------------------------------------------------
# Sim base class
# ----------------------------------------------------------------------------------------
class Sim:
    PROP = ""
    RULE = ""
    COMPONENTS = {"real": ["every line of mouette, numpy, scipy"], "stub": ["seeding of the global PRNGs"]}
    FAULT_KINDS: list = []
    PROBES: list = []
    QUICK_RUNS = 2000
    THOROUGH_RUNS = 200000
    BLOCK = 50
    PRNG_MODE_DEFAULT = "per_call"

    def __init__(self):
        self.faults = collections.Counter()
        self.probes = collections.Counter()
        self.calls = 0
        self.cfg = None
        self.rng = None
        self._crng = {}
        self._last_client = None

    # -- generation ----------------------------------------------------------------------
    def gen_config(self, rng: Rng, tier: str) -> dict:
        raise NotImplementedError

    def start(self, cfg: dict):
        raise NotImplementedError

    def propose(self, rng: Rng):
        """Return the next event (JSON-able dict with at least 'c' and 'op'), or None to stop."""
        raise NotImplementedError

    def applicable(self, ev: dict) -> bool:
        return True

    def step(self, ev: dict):
        """Execute, check, update model.  Return a JSON-able outcome summary.  Raise ViolationFound."""
        raise NotImplementedError

    def finish(self):
        pass

    def close(self):
        pass

    def class_key(self) -> str:
        return ""

    def nontrivial(self) -> bool:
        return self.calls > 0

    def shrink_cfgs(self, cfg: dict):
        """Yield smaller candidate configurations (world shrinking); default: none."""
        return ()

    # -- helpers -------------------------------------------------------------------------
    def client_rng(self, k) -> Rng:
        r = self._crng.get(k)
        if r is None:
            r = self._crng[k] = self.rng.fork(("client", k))
        return r

    def pick_client(self, rng: Rng, names, weights=None, burst=0.5):
        """Seeded scheduler: bursty choice of which client performs its next call."""
        if self._last_client in names and rng.chance(burst):
            return self._last_client
        c = rng.wchoice(names, weights) if weights else rng.choice(names)
        self._last_client = c
        return c

    def violation(self, clause, op, kind, site="", argclass="", detail=""):
        raise ViolationFound(Violation(self.PROP, clause, op, kind, site, argclass, detail))

    def exc_violation(self, clause, op, out: Outcome, argclass="", detail=""):
        self.violation(clause, op, out.kind, out.site, argclass, (detail + "\n" + out.tb).strip())


# ----------------------------------------------------------------------------------------
# executing one run
# ----------------------------------------------------------------------------------------
class RunResult:
    def __init__(self):
        self.seed = None
        self.cfg = None
        self.events = []
        self.digest = ""
        self.violation = None
        self.steps = 0
        self.skipped = 0
        self.faults = {}
        self.probes = {}
        self.class_key = ""
        self.sched_key = ""
        self.nontrivial = False
        self.faulted = False
        self.sample = None


def execute(sim_cls, cfg: dict, events=None, keep_events=True) -> RunResult:
    """Run one simulation.  events=None: generate from cfg['seed'];  otherwise replay."""
    res = RunResult()
    res.cfg = cfg
    res.seed = cfg["seed"]
    sim = sim_cls()
    sim.cfg = cfg
    log = hashlib.sha256()
    log.update(jdump(cfg).encode())
    gen = events is None
    sched = hashlib.sha256()
    with GlobalState():
        try:
            reseed_globals(cfg["seed"], "start")
            rng = Rng(cfg["seed"]).fork("run")
            sim.rng = rng
            srng = rng.fork("sched")
            try:
                sim.start(cfg)
                max_steps = cfg.get("max_steps", 50)
                n = max_steps if gen else len(events)
                prng_mode = cfg.get("prng_mode", sim.PRNG_MODE_DEFAULT)
                for i in range(n):
                    if gen:
                        ev = sim.propose(srng)
                        if ev is None:
                            break
                        ev.setdefault("uid", i)
                        if not sim.applicable(ev):
                            continue  # a proposal the guards refuse is dropped, never recorded
                    else:
                        ev = events[i]
                        if not sim.applicable(ev):
                            res.skipped += 1
                            log.update(b"skip:" + str(ev.get("uid")).encode())
                            continue
                    if keep_events:
                        res.events.append(ev)
                    if prng_mode == "per_call":
                        reseed_globals(cfg["seed"], ev["uid"])
                    res.steps += 1
                    sim._step_no = res.steps
                    log.update(jdump(ev).encode())
                    sched.update(("%s/%s;" % (ev.get("c"), ev.get("op"))).encode())
                    out = sim.step(ev)
                    log.update(b"->" + jdump(out).encode())
                sim.finish()
            except ViolationFound as vf:
                vf.v.step = res.steps
                res.violation = vf.v
                log.update(b"VIOLATION:" + jdump(vf.v.sig).encode())
        finally:
            try:
                sim.close()
            except Exception:  # noqa
                pass
    res.digest = log.hexdigest()
    res.faults = dict(sim.faults)
    res.probes = dict(sim.probes)
    res.class_key = sim.class_key()
    res.sched_key = sched.hexdigest()[:16]
    res.nontrivial = sim.nontrivial()
    res.faulted = bool(cfg.get("faults_on"))
    return res


def make_cfg(sim_cls, seed: int, tier: str) -> dict:
    sim = sim_cls()
    rng = Rng(seed).fork("cfg")
    cfg = sim.gen_config(rng, tier)
    cfg["seed"] = seed
    cfg["tier"] = tier
    cfg.setdefault("faults_on", bool(seed & 1))
    return cfg


def run_seed(sim_cls, seed: int, tier: str, keep_events=False) -> RunResult:
    cfg = make_cfg(sim_cls, seed, tier)
    return execute(sim_cls, cfg, None, keep_events=keep_events)


# ----------------------------------------------------------------------------------------
# known findings
# ----------------------------------------------------------------------------------------
def load_known(prop):
    path = os.path.join(VERIF_DIR, "known_findings.json")
    if not os.path.exists(path):
        return []
    with open(path) as f:
        data = json.load(f)
    return [k for k in data.get("findings", []) if k.get("property") == prop and not k.get("fixed")]


def match_known(known, v: Violation):
    import fnmatch
    names = ("clause", "op", "kind", "site", "argclass")
    vals = dict(zip(names, v.sig[1:]))
    for k in known:
        ms = k.get("match", {})
        for m in (ms if isinstance(ms, list) else [ms]):  # a finding may list several signatures of the same defect
            if all(fnmatch.fnmatchcase(str(vals[n]), str(m.get(n, "*"))) for n in names):
                return k
    return None


# ----------------------------------------------------------------------------------------
# minimisation (deterministic delta debugging on the event list, then world shrinking)
# ----------------------------------------------------------------------------------------
def _reproduces(sim_cls, cfg, events, sig, budget):
    if budget[0] <= 0:
        return False
    budget[0] -= 1
    try:
        r = execute(sim_cls, cfg, events)
    except Exception:  # a candidate that breaks the harness is simply not accepted
        return False
    return r.violation is not None and r.violation.sig == sig


def minimise(sim_cls, cfg, events, sig, max_execs=1500):
    budget = [max_execs]
    events = list(events)
    # 0. cut after the violating step
    # 1. drop whole clients
    clients = sorted({str(e.get("c")) for e in events})
    for c in clients:
        cand = [e for e in events if str(e.get("c")) != c]
        if len(cand) < len(events) and _reproduces(sim_cls, cfg, cand, sig, budget):
            events = cand
    # 2. ddmin
    n = 2
    while len(events) >= 2 and budget[0] > 0:
        chunk = max(1, len(events) // n)
        reduced = False
        for start in range(0, len(events), chunk):
            cand = events[:start] + events[start + chunk:]
            if cand and _reproduces(sim_cls, cfg, cand, sig, budget):
                events = cand
                n = max(n - 1, 2)
                reduced = True
                break
        if not reduced:
            if chunk == 1:
                break
            n = min(len(events), n * 2)
    # 3. world shrinking
    sim = sim_cls()
    progress = True
    while progress and budget[0] > 0:
        progress = False
        for cand_cfg in sim.shrink_cfgs(cfg):
            cand_cfg = dict(cand_cfg)
            cand_cfg["seed"] = cfg["seed"]
            if _reproduces(sim_cls, cand_cfg, events, sig, budget):
                cfg = cand_cfg
                progress = True
                break
    # 4. one more single-event pass
    i = 0
    while i < len(events) and budget[0] > 0 and len(events) > 1:
        cand = events[:i] + events[i + 1:]
        if _reproduces(sim_cls, cfg, cand, sig, budget):
            events = cand
        else:
            i += 1
    return cfg, events, max_execs - budget[0]
