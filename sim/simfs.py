"""SimFS - an in-process file system substituted at the `open` seam of mouette.mesh.io.<fmt>.

`mouette.mesh.io.obj.open = fs.open` makes a module global named `open` shadow the builtin for that
module only (no change to /repo).  The C reader `stl_reader.read(path)` is wrapped by a shim that
materialises the SimFS bytes into a private scratch file, calls the real reader, and deletes the file."""
import io
import os
import tempfile

IO_MODULES = ("obj", "medit", "off", "tet", "xyz", "geogram_ascii", "stl")


class _TextFile(io.StringIO):
    def __init__(self, fs, path, initial="", writable=False):
        super().__init__(initial, newline="")  # no newline translation on write: bytes are what the code wrote
        self._fs, self._path, self._writable = fs, path, writable

    def close(self):
        if self._writable and not self.closed:
            self._fs.files[self._path] = self.getvalue().encode("utf-8")
            self._fs.writes += 1
        super().close()

    def __exit__(self, *a):
        self.close()
        return False


class _BinFile(io.BytesIO):
    def __init__(self, fs, path, initial=b"", writable=False):
        super().__init__(initial)
        self._fs, self._path, self._writable = fs, path, writable

    def close(self):
        if self._writable and not self.closed:
            self._fs.files[self._path] = self.getvalue()
            self._fs.writes += 1
        super().close()

    def __exit__(self, *a):
        self.close()
        return False


_EXECUTION = [0]


class SimFS:
    def __init__(self):
        # every execution gets its own root directory name: code under test that keeps a process-wide cache keyed by path cannot make one
        # simulated run (or one minimisation candidate) depend on an earlier one in the same worker process
        _EXECUTION[0] += 1
        self.root = "/simfs/%d_%d/" % (os.getpid(), _EXECUTION[0])
        self.files = {}
        self.reads = 0
        self.writes = 0
        self._patched = []
        self._scratch = None

    # ---- the seam
    def open(self, path, mode="r", encoding=None, **kw):
        path = str(path)
        if "w" in mode:
            return _BinFile(self, path, b"", True) if "b" in mode else _TextFile(self, path, "", True)
        if path not in self.files:
            raise FileNotFoundError(2, "No such file or directory (SimFS)", path)
        self.reads += 1
        data = self.files[path]
        if "b" in mode:
            return _BinFile(self, path, data)
        text = data.decode(encoding or "utf-8")
        # universal newlines on read, like the builtin text mode
        text = text.replace("\r\n", "\n").replace("\r", "\n")
        return _TextFile(self, path, text)

    def _stl_read(self, path):
        import stl_reader
        if self._scratch is None:
            self._scratch = tempfile.mkdtemp(prefix="simfs_")
        p = os.path.join(self._scratch, "f.stl")
        with open(p, "wb") as f:
            f.write(self.files[str(path)])
        try:
            return self._real_stl_read(p)
        finally:
            os.remove(p)

    def install(self):
        import importlib
        for name in IO_MODULES:
            mod = importlib.import_module("mouette.mesh.io." + name)
            self._patched.append((mod, "open", mod.__dict__.get("open", None)))
            mod.open = self.open
        stl = importlib.import_module("mouette.mesh.io.stl")
        import types
        self._real_stl_read = stl.stl_reader.read
        shim = types.SimpleNamespace(read=self._stl_read)
        self._patched.append((stl, "stl_reader", stl.stl_reader))
        stl.stl_reader = shim
        return self

    def uninstall(self):
        for mod, name, old in reversed(self._patched):
            if old is None:
                try:
                    delattr(mod, name)
                except AttributeError:
                    pass
            else:
                setattr(mod, name, old)
        self._patched = []
        if self._scratch and os.path.isdir(self._scratch):
            try:
                os.rmdir(self._scratch)
            except OSError:
                pass
        self._scratch = None
