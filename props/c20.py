"""C20 - union-find and priority queue conform to their abstract models.

World: ONE shared UnionFind and ONE shared PriorityQueue.  Clients (logical programs that
hold a reference to the shared instance): uf-grower, uf-reader, uf-bulk, pq-producer,
pq-consumer, and - in faulted runs - a rejector issuing calls the API must refuse.
Oracles: RefUF (list of frozensets) and RefPQ (dict id -> priority)."""
from sim.engine import Sim, call, canon

import numpy as np


def dec(x):
    """JSON -> element (lists become tuples)"""
    if isinstance(x, list):
        return tuple(dec(y) for y in x)
    return x


class RefUF:
    def __init__(self):
        self.block = {}  # elt -> frozenset id (list index)
        self.blocks = []  # list of sets (None when merged away)

    def add(self, x):
        if x in self.block:
            return
        self.block[x] = len(self.blocks)
        self.blocks.append({x})

    def union(self, x, y):
        self.add(x)
        self.add(y)
        a, b = self.block[x], self.block[y]
        if a == b:
            return
        for z in self.blocks[b]:
            self.block[z] = a
        self.blocks[a] |= self.blocks[b]
        self.blocks[b] = None

    def same(self, x, y):
        return self.block[x] == self.block[y]

    def comp(self, x):
        return set(self.blocks[self.block[x]])

    def partition(self):
        return {frozenset(b) for b in self.blocks if b is not None}

    @property
    def n(self):
        return len(self.block)

    @property
    def ncomp(self):
        return sum(1 for b in self.blocks if b is not None)


def as_partition(list_of_iterables):
    return {frozenset(c) for c in list_of_iterables}


class C20(Sim):
    PROP = "C20"
    RULE = ("one run = one shared UnionFind + one shared PriorityQueue driven by 3-6 seeded clients "
            "(grower/reader/bulk/producer/consumer[/rejector]) under a bursty seeded scheduler; "
            "distinct = distinct (element-kind, op-kind multiset signature, interleaving hash); "
            "non-trivial = at least one union that merged two blocks or one pop of a non-empty queue")
    FAULT_KINDS = ["reject"]
    PROBES = ["constructor_range", "caller_reuses_init_list", "other_instance_in_between", "held_item_rechecked", "self_union", "union_absent", "repeat_add", "tie_pop", "inf_priority", "mixed_elements", "tuple_elements",
              "component_query", "mapping_query", "merge", "constructor_duplicates", "same_item_pushed_again", "deep_tree_bulk_query"]
    QUICK_RUNS = 12000
    THOROUGH_RUNS = 2000000
    BLOCK = 200
    ASSUMPTIONS = ["priorities are ints/floats incl. +-inf, never NaN (the statement lists ties, negatives, infinities); the same element may be pushed several times, "
                   "with the same or another priority: every push is one pending item (the model is a multiset)",
                   "elements are hashable ints, tuples of ints, or strings"]
    COMPONENTS = {"real": ["mouette.utils.UnionFind", "mouette.utils.PriorityQueue", "numpy"],
                  "stub": ["none (no I/O, clock or PRNG in these classes; global PRNGs are seeded anyway)"]}

    # ---------------------------------------------------------------- config / world
    def gen_config(self, rng, tier):
        kind = rng.wchoice(["int", "tuple", "str", "mixed"], [4, 3, 3, 2])
        n = rng.randint(2, 25)
        if kind == "int":
            base = rng.choice([0, 0, 7, -3, 10 ** 6])
            elts = [base + i * rng.choice([1, 1, 3]) for i in range(n)]
            elts = sorted(set(elts))
            if rng.chance(0.3):
                elts = elts[::-1]  # (a descending progression: handed to the constructor as range(hi, lo, -step) when it is one)
        elif kind == "tuple":
            elts = [[i // 4, i % 4] for i in range(n)]
            if rng.chance(0.3):
                elts = [[e[0], e[1], 0] for e in elts]
        elif kind == "str":
            elts = ["s%d" % i for i in range(n)]
        else:
            elts = []
            for i in range(n):
                t = rng.below(3)
                elts.append(i if t == 0 else ("s%d" % i if t == 1 else [i, i + 1]))
        clients = ["grower", "reader"]
        if rng.chance(0.7):
            clients.append("bulk")
        if rng.chance(0.8):
            clients += ["producer", "consumer"]
        if rng.chance(0.3):
            clients.append("reader")
        deep = rng.chance(0.2)
        if deep:
            # union-heavy runs without intermediate finds: the internal trees get deep before the first bulk query looks at them
            clients = ["grower", "grower", "grower", "bulk"] + (["producer", "consumer"] if rng.chance(0.3) else [])
        return {"kind": kind, "elts": elts, "clients": clients, "deep": deep, "max_steps": rng.randint(8, 60) if not deep else rng.randint(20, 70),
                "init": rng.below(min(4, len(elts)) + 1) if not deep else 0, "init_dups": [rng.below(4) for _ in range(rng.below(3))] if rng.chance(0.3) else [],
                "inv_every": rng.choice([1, 1, 3, 0]) if not deep else 0,
                "burst": rng.choice([0.2, 0.5, 0.8]),
                "prio_pool": rng.choice(["small", "float", "wide", "close"]),
                "reject_rate": rng.choice([0.1, 0.25])}

    def shrink_cfgs(self, cfg):
        if cfg.get("init", 0) > 0:
            c = dict(cfg)
            c["init"] = 0
            yield c
        if cfg.get("inv_every", 0) != 0:
            c = dict(cfg)
            c["inv_every"] = 0
            yield c

    def start(self, cfg):
        from mouette.utils import UnionFind, PriorityQueue
        self.elts = [dec(e) for e in cfg["elts"]]
        init = self.elts[:cfg["init"]]
        if init and cfg.get("init_dups"):
            init = init + [init[i % len(init)] for i in cfg["init_dups"]]  # "repeated adds": also through the constructor's initial list
            self.probes["constructor_duplicates"] += 1
        self.init_list = init  # the caller's own list: it stays the caller's (see op caller_list)
        arg = init
        if init and all(isinstance(e, int) for e in init) and len(init) >= 2 and len(set(init)) == len(init):
            st_ = init[1] - init[0]
            if st_ != 0 and list(range(init[0], init[-1] + (1 if st_ > 0 else -1), st_)) == init and cfg.get("init_as_range", True):
                arg = range(init[0], init[-1] + (1 if st_ > 0 else -1), st_)  # the same elements handed over as a range object
                self.probes["constructor_range"] += 1
        self.uf = UnionFind(arg) if init else UnionFind()
        self.ref = RefUF()
        for e in init:
            self.ref.add(e)
        self.pq = PriorityQueue()
        self.pending = {}  # (item id, priority) -> how many times pushed and not handed out yet (a multiset)
        self.next_item = 0
        self.popped = set()
        self.held = []
        self.others = []
        self.last_push = None
        self.merges = 0
        self.pops = 0
        self.opkinds = set()
        if cfg["kind"] == "mixed":
            self.probes["mixed_elements"] += 1
        if cfg["kind"] == "tuple":
            self.probes["tuple_elements"] += 1
        self._uf_invariant("start")

    # ---------------------------------------------------------------- proposing
    def _prio(self, rng):
        pool = self.cfg["prio_pool"]
        if pool == "small":
            return rng.choice([0, 1, 1, 2, -1, 3])
        if pool == "close":
            # distinct priorities closer than any sensible tolerance: the order is still the order of the numbers
            return rng.choice([1e10, 1e10 + 1, 1e10 + 2, 1e10 + 3, 1.0, 1.0 + 2.220446049250313e-16, 1.0 + 4.440892098500626e-16,
                               -1e10, -1e10 - 1, 2.0 ** 40, 2.0 ** 40 - 1, 2.0 ** 40 - 2])
        if pool == "float":
            return rng.choice([0.5, -0.5, 1e-9, 2.25, 0.5, float("inf"), float("-inf"), 1e300, -1e300])
        return rng.choice([rng.randint(-1000, 1000), rng.uniform(-5, 5), float("inf"), float("-inf"), 0, 0.0, -0.0])

    def propose(self, rng):
        cfg = self.cfg
        self._step_count = getattr(self, "_step_count", 0) + 1
        names = list(dict.fromkeys(cfg["clients"] + (["rejector"] if (cfg["faults_on"] and not cfg.get("deep")) else [])))
        weights = [cfg["clients"].count(n) or cfg["reject_rate"] * 4 for n in names]
        c = self.pick_client(rng, names, weights, cfg["burst"])
        r = self.client_rng(c)
        present = [e for e in self.elts if e in self.ref.block]
        absent = [e for e in self.elts if e not in self.ref.block]
        E = lambda x: canon(x)
        if c == "grower" and self.init_list and r.chance(0.04):
            # the caller goes on using the list it handed to the constructor: appends to it, or builds another union-find from it and grows that
            return {"c": c, "op": "caller_list", "how": r.choice(["append", "second_uf"]), "k": r.below(1 << 16)}
        if c in ("grower", "producer") and r.chance(0.06):
            # ANOTHER union-find / queue is created and used in the same process (kept alive): nothing of it may show in the ones under test
            return {"c": c, "op": "other_instance", "what": "uf" if c == "grower" else "pq", "n": r.randint(1, 6), "k": r.below(1 << 16)}
        if c == "grower":
            op = r.wchoice(["add", "union", "union_self", "add_repeat"], [3, 6, 1, 1])
            if op == "add" and absent:
                return {"c": c, "op": "add", "x": E(r.choice(absent))}
            if op == "add_repeat" and present:
                return {"c": c, "op": "add", "x": E(r.choice(present))}
            if op == "union_self":
                return {"c": c, "op": "union", "x": E(r.choice(self.elts)), "y": None}
            return {"c": c, "op": "union", "x": E(r.choice(self.elts)), "y": E(r.choice(self.elts))}
        if c == "reader":
            op = r.wchoice(["find", "connected", "contains", "len", "counts", "getitem"], [3, 5, 2, 1, 2, 1])
            if op in ("find",) and present:
                return {"c": c, "op": "find", "x": E(r.choice(present))}
            if op == "connected" and present:
                return {"c": c, "op": "connected", "x": E(r.choice(present)), "y": E(r.choice(present))}
            if op == "contains":
                return {"c": c, "op": "contains", "x": E(r.choice(self.elts))}
            if op == "getitem" and present:
                return {"c": c, "op": "getitem", "i": r.below(len(present))}
            return {"c": c, "op": "len" if op == "len" else "counts"}
        if c == "bulk":
            if self.cfg.get("deep"):
                if self._step_count < self.cfg["max_steps"] * 0.6:
                    return {"c": "grower", "op": "union", "x": E(r.choice(self.elts)), "y": E(r.choice(self.elts))}
                self.probes["deep_tree_bulk_query"] += 1
                return {"c": c, "op": "component_mapping"} if r.chance(0.7) or not present else {"c": c, "op": "component", "x": E(r.choice(present))}
            op = r.wchoice(["component", "components", "component_mapping", "roots"], [4, 3, 3, 2])
            if op == "component":
                if not present:
                    return {"c": c, "op": "components"}
                return {"c": c, "op": "component", "x": E(r.choice(present))}
            return {"c": c, "op": op}
        if c == "producer":
            it = self.next_item
            w = self._prio(r)
            if self.last_push is not None and r.chance(0.2):
                # the very element pushed last, again: with the same priority, or another one
                it = self.last_push[0]
                w = self.last_push[1] if r.chance(0.6) else w
            elif self.pending and r.chance(0.1):
                it = r.choice(sorted(self.pending))[0]
            return {"c": c, "op": "push", "item": it, "w": canon(w)}
        if c == "consumer":
            op = r.wchoice(["pop", "get", "front", "empty"], [4, 2, 2, 2])
            if op in ("pop", "get", "front") and not self.pending:
                return {"c": c, "op": "empty"}
            return {"c": c, "op": op}
        # rejector: calls the API must refuse (fault kind 'reject')
        op = r.wchoice(["find", "connected", "component", "pop", "front"], [3, 3, 3, 2, 1])
        if op in ("pop", "front"):
            if self.pending:
                op = "find"
            else:
                return {"c": c, "op": op + "_empty"}
        if not absent:
            return {"c": c, "op": "counts"}
        if op == "connected":
            a = E(r.choice(absent))
            b = E(r.choice(present)) if present and r.chance(0.7) else a
            if r.chance(0.5):
                a, b = b, a
            return {"c": c, "op": "connected_absent", "x": a, "y": b}
        return {"c": c, "op": op + "_absent", "x": E(r.choice(absent))}

    # ---------------------------------------------------------------- guards for replay
    def applicable(self, ev):
        op = ev["op"]
        inm = lambda k: dec(ev[k]) in self.ref.block
        if op in ("find", "component"):
            return inm("x")
        if op == "connected":
            return inm("x") and inm("y")
        if op in ("find_absent", "component_absent"):
            return not inm("x")
        if op == "connected_absent":
            return (not inm("x")) or (not inm("y"))
        if op in ("pop", "get", "front"):
            return bool(self.pending)
        if op in ("pop_empty", "front_empty"):
            return not self.pending
        if op == "push":
            return True
        if op == "caller_list":
            return bool(self.init_list)
        if op == "getitem":
            return ev["i"] < self.ref.n
        return True

    # ---------------------------------------------------------------- oracle helpers
    def _uf_invariant(self, after):
        """n_elts / n_comps / len / components() describe the model's partition."""
        uf, ref = self.uf, self.ref
        if uf.n_elts != ref.n or len(uf) != ref.n:
            self.violation("element-count", after, "wrong_value", "n_elts", "", "n_elts=%r len=%r model=%r" % (uf.n_elts, len(uf), ref.n))
        if uf.n_comps != ref.ncomp:
            self.violation("component-count", after, "wrong_value", "n_comps", "", "n_comps=%r model=%r" % (uf.n_comps, ref.ncomp))
        out = call(uf.components)
        if not out.ok:
            self.exc_violation("component-listing", "components", out, after)
        comps = out.value
        flat = [x for c in comps for x in c]
        try:
            hash(tuple(flat))
        except TypeError:
            self.violation("component-listing", "components", "wrong_value", "components", after,
                           "components() lists objects that are not the elements (unhashable): %r" % (comps,))
        if len(flat) != len(set(flat)) or len(flat) != ref.n:
            self.violation("exactly-one-component", "components", "wrong_value", "components", after,
                           "elements listed %d times, distinct %d, model %d" % (len(flat), len(set(flat)), ref.n))
        if as_partition(comps) != ref.partition():
            self.violation("component-listing", "components", "wrong_value", "components", after,
                           "components()=%r model=%r" % (comps, sorted(map(sorted, map(lambda s: list(map(repr, s)), ref.partition())))))

    def _expect_reject(self, out, exc_type, op):
        self.faults["reject"] += 1
        if out.ok:
            self.violation("reject-absent", op, "wrong_value", op, "", "call that must be refused returned %r" % (out.value,))
        if not isinstance(out.exc, exc_type):
            self.exc_violation("reject-absent", op, out, "", "expected %s" % exc_type.__name__)

    # ---------------------------------------------------------------- step
    def step(self, ev):
        self.calls += 1
        op = ev["op"]
        self.opkinds.add(op)
        uf, ref = self.uf, self.ref
        res = None
        query = True
        if op == "add":
            x = dec(ev["x"])
            if x in ref.block:
                self.probes["repeat_add"] += 1
            out = call(uf.add, x)
            if not out.ok:
                self.exc_violation("add", op, out)
            ref.add(x)
            query = False
        elif op == "union":
            x = dec(ev["x"])
            y = x if ev["y"] is None else dec(ev["y"])
            if x == y:
                self.probes["self_union"] += 1
            if x not in ref.block or y not in ref.block:
                self.probes["union_absent"] += 1
            before = ref.ncomp + (x not in ref.block) + (y not in ref.block and y != x)
            out = call(uf.union, x, y)
            if not out.ok:
                self.exc_violation("union", op, out, "self" if x == y else "")
            ref.union(x, y)
            if ref.ncomp < before:
                self.merges += 1
                self.probes["merge"] += 1
            query = False
        elif op == "find":
            x = dec(ev["x"])
            out = call(uf.find, x)
            if not out.ok:
                self.exc_violation("find", op, out)
            r = out.value
            o2 = call(uf.__getitem__, r)
            if not o2.ok or o2.value not in ref.comp(x):
                self.violation("root-in-component", op, "wrong_value", "find", "",
                               "find(%r)=%r whose element %r is not in the component of x" % (x, r, o2.value if o2.ok else o2.exc))
            res = "root"
        elif op == "connected":
            x, y = dec(ev["x"]), dec(ev["y"])
            out = call(uf.connected, x, y)
            if not out.ok:
                self.exc_violation("connected", op, out)
            if bool(out.value) != ref.same(x, y):
                self.violation("connected-iff-chain", op, "wrong_value", "connected", "",
                               "connected(%r,%r)=%r model=%r" % (x, y, out.value, ref.same(x, y)))
            res = bool(out.value)
        elif op == "contains":
            x = dec(ev["x"])
            out = call(uf.__contains__, x)
            if not out.ok:
                self.exc_violation("contains", op, out)
            if bool(out.value) != (x in ref.block):
                self.violation("element-count", op, "wrong_value", "__contains__", "", "%r in uf = %r" % (x, out.value))
            res = bool(out.value)
        elif op == "getitem":
            out = call(uf.__getitem__, ev["i"])
            if not out.ok:
                self.exc_violation("getitem", op, out)
            if out.value not in ref.block:
                self.violation("element-count", op, "wrong_value", "__getitem__", "", "uf[%d]=%r not an element" % (ev["i"], out.value))
        elif op in ("len", "counts"):
            res = [len(uf), uf.n_elts, uf.n_comps]
            # compared in the invariant below (forced for this op)
            if res != [ref.n, ref.n, ref.ncomp]:
                self.violation("element-count" if res[:2] != [ref.n, ref.n] else "component-count", op, "wrong_value", "counts", "",
                               "len/n_elts/n_comps=%r model=%r" % (res, [ref.n, ref.n, ref.ncomp]))
        elif op == "component":
            self.probes["component_query"] += 1
            x = dec(ev["x"])
            out = call(uf.component, x)
            ac = type(x).__name__ + ("/mixed" if self.cfg["kind"] == "mixed" else "")
            if not out.ok:
                self.exc_violation("component-of", op, out, ac)
            if not isinstance(out.value, (set, frozenset)) or set(out.value) != ref.comp(x):
                self.violation("component-of", op, "wrong_value", "component", ac,
                               "component(%r)=%r model=%r" % (x, out.value, ref.comp(x)))
            res = len(out.value)
        elif op == "components":
            self._uf_invariant("components")
            res = ref.ncomp
        elif op == "component_mapping":
            self.probes["mapping_query"] += 1
            out = call(uf.component_mapping)
            ac = self.cfg["kind"]
            if not out.ok:
                self.exc_violation("component-mapping", op, out, ac)
            m = out.value
            ok = isinstance(m, dict) and set(m.keys()) == set(ref.block.keys())
            if ok:
                for k in ref.block:
                    if set(m[k]) != ref.comp(k):
                        ok = False
                        break
            if not ok:
                self.violation("component-mapping", op, "wrong_value", "component_mapping", ac,
                               "component_mapping()=%r model blocks=%r" % (m, [sorted(map(repr, b)) for b in ref.partition()]))
            res = len(m)
        elif op == "roots":
            out = call(uf.roots)
            if not out.ok:
                self.exc_violation("root-set", op, out)
            roots = out.value
            blocks = set()
            for r in roots:
                o2 = call(uf.__getitem__, r)
                if not o2.ok or o2.value not in ref.block:
                    self.violation("root-set", op, "wrong_value", "roots", "", "root %r is no element index" % (r,))
                blocks.add(ref.block[o2.value])
            if len(roots) != ref.ncomp or len(blocks) != ref.ncomp:
                self.violation("root-set", op, "wrong_value", "roots", "", "roots()=%r for %d components" % (roots, ref.ncomp))
            res = len(roots)
        # ----- rejected operations (fault kind: reject) -----
        elif op == "find_absent":
            out = call(uf.find, dec(ev["x"]))
            self._expect_reject(out, ValueError, op)
            res = "rejected"
        elif op == "component_absent":
            out = call(uf.component, dec(ev["x"]))
            self._expect_reject(out, ValueError, op)
            res = "rejected"
        elif op == "connected_absent":
            out = call(uf.connected, dec(ev["x"]), dec(ev["y"]))
            self._expect_reject(out, ValueError, op)
            res = "rejected"
        elif op == "caller_list":
            from mouette.utils import UnionFind
            self.probes["caller_reuses_init_list"] += 1
            if ev["how"] == "append":
                self.init_list.append(("caller", ev["k"]))
            else:
                def second():
                    u = UnionFind(self.init_list)
                    u.add(("second", ev["k"]))
                    u.union(("second", ev["k"]), ("second", ev["k"] + 1))
                    return u
                o_ = call(second)
                if o_.ok:
                    self.others.append(o_.value)
            res = "caller-list-" + ev["how"]
            query = False
            self._uf_invariant(op)
        elif op == "other_instance":
            from mouette.utils import UnionFind, PriorityQueue
            self.probes["other_instance_in_between"] += 1

            def other():
                if ev["what"] == "uf":
                    u = UnionFind([("other", i) for i in range(ev["n"])])
                    for i in range(ev["n"] - 1):
                        if (ev["k"] >> i) & 1:
                            u.union(("other", i), ("other", i + 1))
                    u.add(("other", "late"))
                    return u, (u.components(), u.roots(), u.n_comp if hasattr(u, "n_comp") else None)
                q = PriorityQueue()
                for i in range(ev["n"]):
                    q.push(("other", i), float((ev["k"] >> i) & 3))
                if ev["n"] > 1:
                    q.pop()
                return q, None
            out = call(other)
            if out.ok:
                self.others.append(out.value[0])
            res = "other-" + ev["what"]
            query = False
            self._uf_invariant(op)
            self._held_items(op)
            mn_ok = call(self.pq.empty)
            if mn_ok.ok and bool(mn_ok.value) != (len(self.pending) == 0):
                self.violation("emptiness", op, "state_corrupted", "empty", "", "empty()=%r with %d pending after another queue was used" % (mn_ok.value, sum(self.pending.values())))
        # ----- priority queue -----
        elif op == "push":
            w = ev["w"]
            w = float(w) if isinstance(w, str) else w  # 'inf' / '-inf'
            if isinstance(w, float) and w in (float("inf"), float("-inf")):
                self.probes["inf_priority"] += 1
            out = call(self.pq.push, ("item", ev["item"]), w)
            if not out.ok:
                self.exc_violation("push", op, out)
            if (ev["item"], w) in self.pending:
                self.probes["same_item_pushed_again"] += 1
            self.pending[(ev["item"], w)] = self.pending.get((ev["item"], w), 0) + 1
            self.last_push = (ev["item"], w)
            self.next_item = max(self.next_item, ev["item"] + 1)
            query = False
        elif op in ("pop", "get", "front"):
            fn = {"pop": self.pq.pop, "get": self.pq.get, "front": lambda: self.pq.front}[op]
            out = call(fn)
            if not out.ok:
                self.exc_violation("min-pending", op, out)
            it = out.value
            x, p = getattr(it, "x", None), getattr(it, "priority", None)
            mn = min(w_ for (_, w_) in self.pending)
            if not (isinstance(x, tuple) and len(x) == 2 and any(i_ == x[1] for (i_, _) in self.pending)):
                self.violation("exactly-once", op, "wrong_value", op, "",
                               "%s() handed out %r which is not pending (pending=%r)" % (op, it, self.pending))
            if (x[1], p) not in self.pending or p != mn:
                self.violation("min-pending", op, "wrong_value", op, "", "%s() gave %r; minimum pending priority is %r (pending=%r)" % (op, it, mn, self.pending))
            if sum(n_ for (_, w_), n_ in self.pending.items() if w_ == mn) > 1:
                self.probes["tie_pop"] += 1
            if op != "front":
                self.held.append((it, x, p))  # the caller keeps what it was handed: it must go on describing that pushed item
                self.pending[(x[1], p)] -= 1
                if self.pending[(x[1], p)] == 0:
                    del self.pending[(x[1], p)]
                self.popped.add(x[1])
                self.pops += 1
            res = x[1]
            query = False
        elif op == "empty":
            out = call(self.pq.empty)
            if not out.ok:
                self.exc_violation("emptiness", op, out)
            if bool(out.value) != (len(self.pending) == 0):
                self.violation("emptiness", op, "wrong_value", "empty", "", "empty()=%r with %d pending" % (out.value, sum(self.pending.values())))
            res = bool(out.value)
            query = False
        elif op in ("pop_empty", "front_empty"):
            fn = self.pq.pop if op == "pop_empty" else (lambda: self.pq.front)
            out = call(fn)
            self._expect_reject(out, IndexError, op)
            o2 = call(self.pq.empty)
            if not o2.ok or not o2.value:
                self.violation("emptiness", op, "state_corrupted", "empty", "", "queue not empty after a refused pop")
            res = "rejected"
            query = False
        else:
            raise ValueError("unknown op %r" % (op,))
        if op in ("push", "pop", "get", "front", "pop_empty", "front_empty", "empty"):
            self._held_items(op)
        # queries never change the partition; rejected calls never change state
        inv = self.cfg["inv_every"]
        if op.startswith(("find", "connected", "component", "roots", "contains", "len", "counts", "getitem")) or \
                op in ("add", "union"):
            if inv and (self._step_no % inv == 0 or op.endswith("_absent")):
                self._uf_invariant(op)
        return res

    def _held_items(self, op):
        """an item handed out earlier and kept by the caller still is the item that was pushed (each pushed item is handed out once, as itself)"""
        for it, x, p in self.held[-12:]:
            if getattr(it, "x", None) != x or getattr(it, "priority", None) != p:
                self.violation("exactly-once", op, "state_corrupted", "handed-out-item", "",
                               "an item handed out earlier as (%r, %r) now reads (%r, %r) after %s" % (x, p, getattr(it, "x", None), getattr(it, "priority", None), op))
        if self.held:
            self.probes["held_item_rechecked"] += 1

    def finish(self):
        self._uf_invariant("end")
        # every element in exactly one component; every pushed item handed out at most once (checked per pop)
        for x in list(self.ref.block)[:10]:
            out = call(self.uf.component, x)
            if not out.ok:
                self.exc_violation("component-of", "component", out, type(x).__name__ + ("/mixed" if self.cfg["kind"] == "mixed" else ""))
            if set(out.value) != self.ref.comp(x):
                self.violation("component-of", "component", "wrong_value", "component",
                               type(x).__name__ + ("/mixed" if self.cfg["kind"] == "mixed" else ""),
                               "at end: component(%r)=%r model=%r" % (x, out.value, self.ref.comp(x)))
        # drain the queue: each pending item exactly once, in non-decreasing priority
        last = None
        while self.pending:
            out = call(self.pq.pop)
            if not out.ok:
                self.exc_violation("exactly-once", "drain", out)
            it = out.value
            mn = min(w_ for (_, w_) in self.pending)
            if not (isinstance(it.x, tuple) and (it.x[1], it.priority) in self.pending):
                self.violation("exactly-once", "drain", "wrong_value", "pop", "", "drain handed out %r, pending %r" % (it, self.pending))
            if it.priority != mn:
                self.violation("min-pending", "drain", "wrong_value", "pop", "", "drain gave %r, min pending %r" % (it, mn))
            self.pending[(it.x[1], it.priority)] -= 1
            if self.pending[(it.x[1], it.priority)] == 0:
                del self.pending[(it.x[1], it.priority)]
        out = call(self.pq.empty)
        if not out.ok or not out.value:
            self.violation("emptiness", "drain", "wrong_value", "empty", "", "queue not empty after draining every pushed item")

    def nontrivial(self):
        return self.merges > 0 or self.pops > 0

    def class_key(self):
        return "%s|n=%d|%s" % (self.cfg["kind"], len(self.cfg["elts"]) // 5, ",".join(sorted(self.opkinds)))


SIM = C20
