"""C02 - mesh construction normalises raw data, whatever its form.

World: ONE raw spec (points, declared edges incl. invalid ones, faces of any arity, tet/hex cells, an edge
attribute sparse or dense).  Clients: builder (every constructor path x container flavour), re-wrapper
(RawMeshData(mesh) -> constructor again: the 'restart' - the volatile _prepared flag is lost, the durable containers
are shared), observer (reads every container and runs a C01/C03-style query script), config client (flips the
completion switches between builds).  Oracle: models.ref_normalise.Normal."""
import numpy as np

from sim.engine import Sim, call, canon
from sim.rng import Rng, h64
from sim.simfs import SimFS
from models.ref_normalise import Normal, key, cell_faces
from models.ref_surface import RefSurface, is_oriented_manifold
from models.ref_volume import RefVolume
from models import surfgen, volgen

FLAVOURS = ["list", "tuple", "numpy"]


def rows(seq, flavour):
    if flavour == "list":
        return [list(r) for r in seq]
    if flavour == "tuple":
        return [tuple(r) for r in seq]
    return [np.array(r) for r in seq]


# ---- minimal independent writers for the file path (format definitions; 1-based for obj/medit, 0-based for tet)
def write_obj(spec):
    out = ["# planted by the reference writer"]
    for p in spec["points"]:
        out.append("v %r %r %r" % tuple(map(float, p)))
    for a, b in spec.get("edges", []):
        out.append("l %d %d" % (a + 1, b + 1))
    for f in spec.get("faces", []):
        out.append("f " + " ".join(str(v + 1) for v in f))
    return "\n".join(out) + "\n"


def write_medit(spec):
    out = ["MeshVersionFormatted 2", "Dimension 3", "Vertices", str(len(spec["points"]))]
    for p in spec["points"]:
        out.append("%r %r %r 0" % tuple(map(float, p)))
    if spec.get("edges"):
        out += ["Edges", str(len(spec["edges"]))] + ["%d %d 0" % (a + 1, b + 1) for a, b in spec["edges"]]
    tris = [f for f in spec.get("faces", []) if len(f) == 3]
    quads = [f for f in spec.get("faces", []) if len(f) == 4]
    if tris:
        out += ["Triangles", str(len(tris))] + [" ".join(str(v + 1) for v in f) + " 0" for f in tris]
    if quads:
        out += ["Quadrilaterals", str(len(quads))] + [" ".join(str(v + 1) for v in f) + " 0" for f in quads]
    tets = [c for c in spec.get("cells", []) if len(c) == 4]
    if tets:
        out += ["Tetrahedra", str(len(tets))] + [" ".join(str(v + 1) for v in c) + " 0" for c in tets]
    hexes = [c for c in spec.get("cells", []) if len(c) == 8]
    if hexes:
        out += ["Hexahedra", str(len(hexes))] + [" ".join(str(v + 1) for v in c) + " 0" for c in hexes]
    out.append("End")
    return "\n".join(out) + "\n"


def write_tet(spec):
    out = ["%d vertices" % len(spec["points"]), "%d tets" % len(spec["cells"])]
    for p in spec["points"]:
        out.append("%r %r %r" % tuple(map(float, p)))
    for c in spec["cells"]:
        out.append("4 " + " ".join(map(str, c)))
    return "\n".join(out) + "\n"


# ---- spec generation
def gen_spec(rng, tier):
    kind = rng.wchoice(["cloud", "polyline", "surface", "tets", "hexes"], [1, 2, 5, 3, 2])
    spec = {"kind": kind, "edges": [], "faces": [], "cells": [], "eattr": None}
    if kind == "cloud":
        n = rng.randint(1, 8)
        spec["points"] = [[round(rng.uniform(-2, 2), 3) for _ in range(3)] for _ in range(n)]
    elif kind == "polyline":
        n = rng.randint(2, 10)
        spec["points"] = [[float(i), round(rng.uniform(-1, 1), 3), 0.0] for i in range(n)]
        ed = [[i, i + 1] for i in range(n - 1)]
        if rng.chance(0.3) and n > 2:
            ed.append([n - 1, 0])
        if rng.chance(0.3) and n > 3:
            ed.append([0, n // 2])
        spec["edges"] = ed
    elif kind == "surface":
        p, f = surfgen.gen_surface(rng.fork("s"), rng.choice([2, 5, 10, 20]), allow_union=rng.chance(0.3))
        spec["points"] = [[round(x, 4) for x in q] for q in p]
        spec["faces"] = f
        ref = RefSurface(len(p), f)
        pairs = sorted(ref.all_edge_pairs())
        for _ in range(rng.below(4)):
            spec["edges"].append(list(rng.choice(pairs)))
        if rng.chance(0.25):  # a declared edge that is no side of a face (e.g. a diagonal)
            big = [ff for ff in f if len(ff) >= 4]
            if big:
                ff = rng.choice(big)
                spec["edges"].append([ff[0], ff[2]])
    elif kind == "tets":
        p, c, _ = volgen.gen_tets(rng.fork("v"), rng.choice([1, 4, 8]))
        spec["points"], spec["cells"] = p, c
        if rng.chance(0.15):
            # EVERY face of every cell is declared by the caller (a shared face once, rotated at will): face completion has nothing to add,
            # and may then be switched off
            seen_ = set()
            for cc in c:
                for ff in cell_faces(cc):
                    if key(ff) not in seen_:
                        seen_.add(key(ff))
                        ff = list(ff)
                        k = rng.below(3)
                        spec["faces"].append(ff[k:] + ff[:k])
            spec["all_faces"] = True
        elif rng.chance(0.3):  # declare some faces of the cells explicitly (possibly rotated)
            for _ in range(rng.randint(1, 3)):
                cc = rng.choice(c)
                ff = list(rng.choice(cell_faces(cc)))
                k = rng.below(3)
                spec["faces"].append(ff[k:] + ff[:k])
            spec["faces"] = [list(x) for x in dict.fromkeys(map(tuple, spec["faces"]))]
            ks = set()
            spec["faces"] = [ff for ff in spec["faces"] if not (key(ff) in ks or ks.add(key(ff)))]
        if rng.chance(0.3):
            cc = rng.choice(c)
            spec["edges"].append([cc[0], cc[1]])
    else:
        nx = rng.randint(1, 3)
        pts, cells = [], []

        def vid(i, j, k):
            return (i * 2 + j) * 2 + k
        for i in range(nx + 1):
            for j in range(2):
                for k in range(2):
                    pts.append([float(i), float(j), float(k)])
        for i in range(nx):
            cells.append([vid(i, 0, 0), vid(i + 1, 0, 0), vid(i + 1, 1, 0), vid(i, 1, 0), vid(i, 0, 1), vid(i + 1, 0, 1), vid(i + 1, 1, 1), vid(i, 1, 1)])
        if rng.chance(0.3):
            cells.insert(rng.below(len(cells) + 1), [vid(0, 0, 0), vid(1, 0, 0), vid(1, 1, 0), vid(1, 0, 1)])  # a tetrahedron among the hexahedra
        spec["points"], spec["cells"] = pts, cells
    n = len(spec["points"])
    # reverse some declared edges (high index first), drop duplicates (duplicate declarations are outside the statement)
    seen, ed = set(), []
    for e in spec["edges"]:
        if key(e) in seen:
            continue
        seen.add(key(e))
        ed.append(list(reversed(e)) if rng.chance(0.4) else list(e))
    # invalid edges: self-loops and out-of-range, inserted anywhere
    if rng.chance(0.45):
        for _ in range(rng.randint(1, 3)):
            bad = rng.choice(["loop", "high", "neg"])
            v = rng.below(n)
            e = [v, v] if bad == "loop" else [v, n + rng.below(3)] if bad == "high" else [-1 - rng.below(2), v]
            if rng.chance(0.5):
                e = e[::-1]
            ed.insert(rng.below(len(ed) + 1), e)
    spec["edges"] = ed
    if ed and rng.chance(0.6):
        vals = {}
        t = rng.choice(["float", "int"])
        for i in range(len(ed)):
            if rng.chance(0.7):
                vals[str(i)] = (10 + 2 * i) if t == "int" else (10.5 + 2 * i)
        spec["eattr"] = {"name": "w", "type": t, "dense": rng.chance(0.5), "values": vals}
    return spec


class Slot:
    def __init__(self, mesh, normal, switches, path, flavour):
        self.mesh, self.normal, self.switches, self.path, self.flavour = mesh, normal, switches, path, flavour


class C02(Sim):
    PROP = "C02"
    RULE = ("one run = one raw spec built / re-wrapped / re-built / observed by builder, re-wrapper, observer and config clients; "
            "distinct = distinct (spec class (element kinds x invalid-edge kinds x attribute storage), (path,flavour,switches) sequence); "
            "non-trivial = >= 1 build and >= 1 observation or re-wrap of a mesh with at least edges")
    FAULT_KINDS = ["rewrap", "config_flip", "failed_attempt"]
    PROBES = ["invalid_edge_filtered", "dense_edge_attr", "sparse_edge_attr", "numpy_flavour", "tuple_flavour", "hex_cells", "tet_cells",
              "declared_faces_on_volume", "polygon_face", "file_path", "from_arrays_path", "rewrap", "switch_off_build", "query_script", "2d_padded", "peek_dimensionality", "input_lists_reused", "two_stage_build", "first_attempt_raised", "first_attempt_accepted", "rewrap_with_more_edges", "face_with_repeated_vertex", "path_rewritten_between_loads", "obj_relative_interleaved", "obj_vertex_extras"]
    QUICK_RUNS = 4000
    THOROUGH_RUNS = 400000
    BLOCK = 40
    ASSUMPTIONS = ["points are given with 3 coordinates on the raw-container paths (2-D input is exercised only through from_arrays, whose padding is documented)",
                   "declared edges are pairwise distinct (duplicate declarations are outside the statement)",
                   "hexahedra use the Medit/VTK vertex order (bottom loop, top loop)",
                   "a re-wrap is judged as the identity only when the completion switches in force equal those at the original build",
                   "complete_faces_from_cells is switched off only for specs without cells, or whose cells have ALL their faces declared (cell-face records need the faces to exist)",
                   "the edge list is compared as a multiset (the statement fixes no order)"]
    COMPONENTS = {"real": ["mouette.mesh.mesh_data", "mouette.mesh.mesh", "mouette.mesh.datatypes.*", "mouette.mesh.data_container", "mouette.mesh.io.obj/medit/tet (load path)"],
                  "stub": ["file system: SimFS behind the module-level open seam", "file contents planted by minimal reference writers"]}

    # ------------------------------------------------------------------ config
    def gen_config(self, rng, tier):
        spec = gen_spec(rng.fork("spec"), tier)
        return {"world": spec, "max_steps": rng.randint(3, 18), "burst": rng.choice([0.2, 0.5]),
                "flavours": rng.subset(FLAVOURS, 0.6, at_least=1), "flip_rate": rng.choice([0.1, 0.3]),
                "paths_off": rng.subset(["raw_class", "instanciate", "from_arrays", "file"], 0.2)}

    def start(self, cfg):
        import mouette as M
        self.M = M
        self.fs = SimFS().install()
        self.spec = cfg["world"]
        self.slots = {}
        self.sw = {"ce": True, "cf": True}
        M.config.complete_edges_from_faces = True
        M.config.complete_faces_from_cells = True
        self.nbuild = self.nobs = 0
        self._shared_inputs = {}
        self.seq = []
        s = self.spec
        if s["cells"] and len(s["cells"][0]) == 8:
            self.probes["hex_cells"] += 1
        if s["cells"] and len(s["cells"][0]) == 4:
            self.probes["tet_cells"] += 1
            if s["faces"]:
                self.probes["declared_faces_on_volume"] += 1
        if any(len(f) > 4 for f in s["faces"]):
            self.probes["polygon_face"] += 1
        if s.get("degenerate"):
            self.probes["face_with_repeated_vertex"] += 1

    def close(self):
        self.fs.uninstall()

    # ------------------------------------------------------------------ which paths can express the spec
    def _paths(self):
        s = self.spec
        n = len(s["points"])
        out = ["raw_class", "instanciate"]
        if s["cells"] and s["faces"] and not s["eattr"] and not s["edges"]:
            out.append("two_stage")
        ar = {len(f) for f in s["faces"]}
        car = {len(c) for c in s["cells"]}
        in_range = all(0 <= a < n and 0 <= b < n for a, b in s["edges"])
        if len(ar) <= 1 and len(car) <= 1 and in_range and not s["eattr"]:
            out.append("from_arrays")
        if not s["eattr"]:
            if not s["cells"] and all(a >= 0 and b >= 0 for a, b in s["edges"]):
                out.append("file_obj")  # (a negative index in an OBJ file is a RELATIVE index, not an invalid one: not expressible there)
            if ar <= {3, 4} and car <= {4, 8}:
                out.append("file_medit")
            if s["cells"] and car == {4} and not s["faces"] and not s["edges"]:
                out.append("file_tet")
        off = self.cfg["paths_off"]
        out = [p for p in out if p.split("_")[0] not in off and p not in off] or ["raw_class"]
        return out

    def propose(self, rng):
        cfg = self.cfg
        names = ["builder", "observer"] + (["rewrapper", "config"] if cfg["faults_on"] else ["rewrapper"])
        weights = [3 if not self.slots else 1.5, 2, 1.5] + ([cfg["flip_rate"] * 4] if cfg["faults_on"] else [])
        c = self.pick_client(rng, names, weights, cfg["burst"])
        r = self.client_rng(c)
        if c == "config":
            k = r.choice(["ce", "cf"]) if (not self.spec["cells"] or self.spec.get("all_faces")) else "ce"
            return {"c": c, "op": "flip", "key": k, "value": not self.sw[k]}
        if c == "builder" or not self.slots:
            path = r.choice(self._paths())
            fl = r.choice(cfg["flavours"]) if path in ("raw_class", "instanciate", "two_stage") else ("numpy" if path == "from_arrays" else "file")
            return {"c": "builder", "op": "build", "path": path, "flavour": fl, "slot": "m%d" % self.nbuild, "pad2d": r.chance(0.5),
                    "peek": r.choice([None, None, "early", "late"]), "reuse": r.chance(0.4),
                    "retry": r.choice(["bad_edge", "config"]) if cfg["faults_on"] and r.chance(0.3) else None, "decoy": r.chance(0.3), "obj_style": r.choice([None, "relative"]), "obj_vextra": r.choice([None, None, "w", "rgb"])}
        slot = r.choice(sorted(self.slots))
        if c == "rewrapper":
            if r.chance(0.25) and hasattr(self.slots[slot].mesh, "edges"):
                # the built mesh is wrapped again, MORE declared edges are appended (new ones: not yet edges of the mesh, pairwise distinct; some
                # written high index first, some invalid), and the whole is built again
                n = len(self.spec["points"])
                have = {tuple(sorted(int(x) for x in e)) for e in self.slots[slot].mesh.edges}
                free = [(a, b) for a in range(n) for b in range(a + 1, n) if (a, b) not in have]
                rows_ = [list(e) if r.chance(0.5) else [e[1], e[0]] for e in r.sample(free, min(len(free), r.randint(0, 3)))]
                rows_ += r.sample([[1, 1], [0, n + 4], [n, 0], [2, 2]], r.randint(0, 2))
                r.shuffle(rows_)
                if rows_:
                    return {"c": c, "op": "rewrap_add_edges", "slot": slot, "rows": rows_, "flavour": r.choice(["list", "tuple", "numpy"]), "how": r.choice(["class", "instanciate"])}
            return {"c": c, "op": r.choice(["rewrap_same_class", "rewrap_instanciate", "prepare_again"]), "slot": slot, "dst": slot + "r"}
        return {"c": c, "op": r.choice(["observe", "observe", "query_script"]), "slot": slot, "qseed": r.below(1 << 30)}

    def applicable(self, ev):
        op = ev["op"]
        if op == "build":
            return ev["slot"] not in self.slots and ev["path"] in self._paths()
        if op == "flip":
            return not (ev["key"] == "cf" and self.spec["cells"] and not self.spec.get("all_faces"))
        if ev.get("slot") not in self.slots:
            return False
        if op == "rewrap_add_edges":
            sl = self.slots[ev["slot"]]
            if sl.switches != self.sw or not hasattr(sl.mesh, "edges"):
                return False
            n = len(self.spec["points"])
            have = {tuple(sorted(int(x) for x in e)) for e in sl.mesh.edges}
            valid = [tuple(sorted(e)) for e in ev["rows"] if e[0] != e[1] and 0 <= e[0] < n and 0 <= e[1] < n]
            return len(set(valid)) == len(valid) and not (set(valid) & have)
        if op.startswith("rewrap") or op == "prepare_again":
            return self.slots[ev["slot"]].switches == self.sw and ev.get("dst") not in self.slots
        return True

    # ------------------------------------------------------------------ building
    def _rows(self, kind, flavour, reuse):
        """the caller's input list for one element kind; with `reuse` the SAME list object (and row objects) is handed to every construction"""
        if not reuse:
            return rows(self.spec[kind], flavour)
        key_ = (kind, flavour)
        if key_ not in self._shared_inputs:
            self._shared_inputs[key_] = rows(self.spec[kind], flavour)
        else:
            self.probes["input_lists_reused"] += 1
        return self._shared_inputs[key_]

    def _fill_raw(self, flavour, peek=None, reuse=False, only=None):
        """peek: the caller reads the (lazily cached) dimensionality of the raw data while filling it - a legal history"""
        from mouette.mesh.mesh_data import RawMeshData
        s = self.spec
        d = RawMeshData()
        d.vertices += self._rows("points", flavour, reuse)
        if peek == "early":
            d.dimensionality
            self.probes["peek_dimensionality"] += 1
        if s["edges"]:
            d.edges += self._rows("edges", flavour, reuse)
        if s["eattr"]:
            ea = s["eattr"]
            a = d.edges.create_attribute(ea["name"], float if ea["type"] == "float" else int, 1, dense=ea["dense"])
            for i, v in ea["values"].items():
                a[int(i)] = v
            self.probes["dense_edge_attr" if ea["dense"] else "sparse_edge_attr"] += 1
        if s["faces"]:
            d.faces += self._rows("faces", flavour, reuse)
        if s["cells"] and only != "no_cells":
            d.cells += self._rows("cells", flavour, reuse)
        if peek == "late":
            d.dimensionality
            self.probes["peek_dimensionality"] += 1
        return d

    def _build(self, ev, normal):
        M = self.M
        path, fl = ev["path"], ev["flavour"]
        s = self.spec
        if path in ("raw_class", "instanciate"):
            d = self._fill_raw(fl, ev.get("peek"), ev.get("reuse"))
            ctor = getattr(M.mesh, normal.class_name) if path == "raw_class" else M.mesh.mesh._instanciate_raw_mesh_data
            rt = ev.get("retry")
            if rt == "bad_edge" and not s["eattr"]:
                # fault 'failed_attempt': a malformed edge row makes the first construction raise; the caller repairs the container
                # (clear, declare the edges again) and builds again FROM THE SAME raw object.  Only the second result is judged.
                d.edges += [[2, 1, 0]]
                first = call(ctor, d)
                d.edges.clear()
                if s["edges"]:
                    d.edges += self._rows("edges", fl, False)
                self.faults["failed_attempt"] += 1
                self.probes["first_attempt_raised" if not first.ok else "first_attempt_accepted"] += 1
            elif rt == "config" and s["cells"] and not s["faces"] and self.sw["cf"]:
                # the first attempt runs with face completion switched off (cells without faces cannot be prepared); the caller
                # switches it back on and builds again from the same raw object
                M.config.complete_faces_from_cells = False
                try:
                    first = call(ctor, d)
                finally:
                    M.config.complete_faces_from_cells = True
                self.faults["failed_attempt"] += 1
                self.probes["first_attempt_raised" if not first.ok else "first_attempt_accepted"] += 1
                if first.ok:
                    d = self._fill_raw(fl, None, False)  # (it did not fail: nothing to retry from)
            return call(ctor, d)
        if path == "two_stage":
            # construction in two stages: the surface part is built first, the finished mesh is wrapped again, the cells are added, and
            # the whole is built again ("building again from an already built mesh", with more data)
            from mouette.mesh.mesh_data import RawMeshData
            self.probes["two_stage_build"] += 1

            def two_stage():
                d1 = self._fill_raw(fl, None, False, only="no_cells")
                m1 = M.mesh.mesh._instanciate_raw_mesh_data(d1)
                d2 = RawMeshData(m1)
                d2.cells += rows(s["cells"], fl)
                return M.mesh.mesh._instanciate_raw_mesh_data(d2)
            return call(two_stage)
        if path == "from_arrays":
            self.probes["from_arrays_path"] += 1
            V = np.array(s["points"], dtype=float)
            if ev.get("pad2d") and all(p[2] == 0 for p in s["points"]):
                V = V[:, :2]
                self.probes["2d_padded"] += 1
            E = np.array(s["edges"], dtype=int) if s["edges"] else None
            F = np.array(s["faces"], dtype=int) if s["faces"] else None
            C = np.array(s["cells"], dtype=int) if s["cells"] else None
            return call(M.mesh.from_arrays, V, E, F, C)
        self.probes["file_path"] += 1
        ext, writer = {"file_obj": ("obj", write_obj), "file_medit": ("mesh", write_medit), "file_tet": ("tet", write_tet)}[path]
        fname = self.fs.root + "%s.%s" % (ev["slot"], ext)
        if ev.get("decoy"):
            # the path held ANOTHER mesh before, which was loaded once; the file was then rewritten (by the independent writer, not by
            # mouette.save): loading the path again must give what the file says now
            self.fs.files[fname] = writer({"points": [[0.0, 0.0, 0.0], [1.0, 0.0, 0.0], [0.0, 1.0, 0.0], [0.0, 0.0, 1.0]], "edges": [],
                                           "faces": [] if path == "file_tet" else [[0, 1, 2]], "cells": [[0, 1, 2, 3]] if path != "file_obj" else []}).encode()
            call(M.mesh.load, fname)
            self.probes["path_rewritten_between_loads"] += 1
        n_ = len(s["points"])
        if path == "file_obj" and ev.get("obj_style") == "relative" and all(a != b and 0 <= a < n_ and 0 <= b < n_ for a, b in s["edges"]):
            # the same content as another writer puts it: relative (negative) indices, every vertex written just before the first face using it
            from models import ref_codecs as RC
            self.fs.files[fname] = RC.write("obj", {"vertices": [list(map(float, p_)) for p_ in s["points"]], "edges": [list(e) for e in s["edges"]],
                                                    "faces": [list(f) for f in s["faces"]], "cells": [], "attributes": {}},
                                            relative_indices=True, interleave=True)
            self.probes["obj_relative_interleaved"] += 1
        else:
            self.fs.files[fname] = writer(s).encode()
        if path == "file_obj" and ev.get("obj_vextra"):
            import re
            # `v x y z w` / `v x y z r g b`: more numbers than three on a vertex line (weights, colours); the vertex is (x, y, z)
            self.fs.files[fname] = re.sub(rb"(?m)^(v[ \t]+\S+[ \t]+\S+[ \t]+\S+)[ \t]*$", rb"\1 1.0" if ev["obj_vextra"] == "w" else rb"\1 0.5 0.25 1", self.fs.files[fname])
            self.probes["obj_vertex_extras"] += 1
        return call(M.mesh.load, fname)

    # ------------------------------------------------------------------ observation against the normal form
    def _observe(self, slot, name, after):
        mesh, nf = slot.mesh, slot.normal
        ac = "%s/%s" % (slot.path, slot.flavour)
        V = lambda clause, what, detail: self.violation(clause, after, "wrong_value", what, ac, "%s: %s" % (name, detail))
        if type(mesh).__name__ != nf.class_name:
            V("class-matches-dimension", "class", "class %s, expected %s" % (type(mesh).__name__, nf.class_name))
        # 3-D vertices
        if len(mesh.vertices) != len(nf.points):
            V("3d-vertices", "vertices", "%d vertices, expected %d" % (len(mesh.vertices), len(nf.points)))
        for i, p in enumerate(nf.points):
            v = mesh.vertices[i]
            if not isinstance(v, self.M.Vec) or np.shape(v) != (3,) or [float(x) for x in v] != p:
                V("3d-vertices", "vertices", "vertex %d is %r (%s), expected the 3-D point %r" % (i, v, type(v).__name__, p))
        # edges
        if nf.dim >= 1:
            el = [tuple(int(x) for x in e) for e in mesh.edges]
            if any(len(e) != 2 or e[0] >= e[1] for e in el):
                V("edges-low-index-first", "edges", "edge list %r" % (el,))
            n = len(nf.points)
            if any(not (0 <= a < n and 0 <= b < n) or a == b for a, b in el):
                V("invalid-edges-dropped", "edges", "edge list %r still holds self-loops or out-of-range edges" % (el,))
            if sorted(el) != sorted(nf.edge_keys):
                V("edges-declared-plus-sides-once", "edges", "edge list %r, expected (as a multiset) %r" % (el, sorted(nf.edge_keys)))
            idx = {e: i for i, e in enumerate(el)}
            if mesh.edges.has_attribute("hard_edges"):
                h = mesh.edges.get_attribute("hard_edges")
                flagged = {el[i] for i in range(len(el)) if bool(h[i])}
                if flagged != nf.hard:
                    V("only-declared-edges-hard", "hard_edges", "hard edges %r, declared %r" % (sorted(flagged), sorted(nf.hard)))
            elif nf.edges_completed and nf.hard:
                V("only-declared-edges-hard", "hard_edges", "no hard_edges attribute although edges were declared and completed")
            if nf.eattr:
                if not mesh.edges.has_attribute(nf.eattr["name"]):
                    V("surviving-edges-keep-attributes", "edge-attribute", "edge attribute %r is gone" % nf.eattr["name"])
                a = mesh.edges.get_attribute(nf.eattr["name"])
                for e, i in idx.items():
                    exp = nf.eattr["values"].get(e, nf.eattr["default"])
                    o = call(a.__getitem__, i)
                    if not o.ok:
                        self.exc_violation("surviving-edges-keep-attributes", after, o, ac + ("/dense" if self.spec["eattr"]["dense"] else "/sparse"))
                    if not bool(o.value == exp):
                        self.violation("surviving-edges-keep-attributes", after, "wrong_value", "edge-attribute",
                                       ac + ("/dense" if self.spec["eattr"]["dense"] else "/sparse") + ("/filtered" if nf.n_invalid else ""),
                                       "%s: attribute %r on edge %r (index %d) reads %r, expected %r" % (name, nf.eattr["name"], e, i, o.value, exp))
        # faces
        if nf.dim >= 2:
            fl = [[int(x) for x in f] for f in mesh.faces]
            nd = len(nf.faces_declared)
            if fl[:nd] != nf.faces_declared:
                V("faces", "faces", "declared faces %r, found %r" % (nf.faces_declared, fl[:nd]))
            if sorted(key(f) for f in fl) != sorted(nf.face_keys) or any(len(f) != len(set(f)) for f in fl[nd:]):  # (completed faces never repeat a vertex)
                V("faces-completed-from-cells", "faces", "faces (as vertex sets) %r, expected %r" % (sorted(key(f) for f in fl), sorted(nf.face_keys)))
            # completed faces are faces of cells with the right arity
            fc = mesh.face_corners
            exp_elem = [v for f in fl for v in f]
            exp_adj = [i for i, f in enumerate(fl) for _ in f]
            self._corner_check(name, after, ac, "face_corners", fc, exp_elem, exp_adj)
        if nf.dim >= 3:
            cl = [[int(x) for x in c] for c in mesh.cells]
            if cl != nf.cells:
                V("cells", "cells", "cells %r, expected %r" % (cl, nf.cells))
            self._corner_check(name, after, ac, "cell_corners", mesh.cell_corners, [v for c in cl for v in c], [i for i, c in enumerate(cl) for _ in c])
            # cell_faces: one record per cell-face incidence, in cell order, element = a face of that cell, owner = the cell
            fkeys = [key(f) for f in mesh.faces]
            cf = mesh.cell_faces
            nrec = sum(len(cell_faces(c)) for c in cl)
            if len(cf) != nrec:
                V("corner-records", "cell_faces", "%d cell-face records, expected %d" % (len(cf), nrec))
            pos = 0
            for ic, c in enumerate(cl):
                want = sorted(key(f) for f in cell_faces(c))
                got = []
                for _ in range(len(want)):
                    oe, oa = call(cf.element, pos), call(cf.adj, pos)
                    if not oe.ok or not oa.ok:
                        self.exc_violation("corner-records", after, oe if not oe.ok else oa, ac + "/cell_faces",
                                           "%s: cell-face record %d has no %s" % (name, pos, "element" if not oe.ok else "owner"))
                    if int(oa.value) != ic:
                        V("corner-records", "cell_faces", "cell-face record %d has owner %r, expected cell %d" % (pos, oa.value, ic))
                    got.append(fkeys[int(oe.value)])
                    pos += 1
                if sorted(got) != want:
                    V("corner-records", "cell_faces", "cell %d: face records %r, expected the faces %r" % (ic, sorted(got), want))

    def _corner_check(self, name, after, ac, what, cont, exp_elem, exp_adj):
        if len(cont) != len(exp_elem):
            self.violation("corner-records", after, "wrong_value", what, ac, "%s: %d %s records, expected %d" % (name, len(cont), what, len(exp_elem)))
        for k in range(len(exp_elem)):
            oe, oa = call(cont.element, k), call(cont.adj, k)
            if not oe.ok or not oa.ok:
                self.exc_violation("corner-records", after, oe if not oe.ok else oa, ac + "/" + what, "%s: record %d" % (name, k))
            if int(oe.value) != exp_elem[k] or int(oa.value) != exp_adj[k]:
                self.violation("corner-records", after, "wrong_value", what, ac,
                               "%s: %s record %d = (element %r, owner %r), expected (%r, %r)" % (name, what, k, oe.value, oa.value, exp_elem[k], exp_adj[k]))

    @staticmethod
    def _hard(mesh):
        if not hasattr(mesh, "edges") or not mesh.edges.has_attribute("hard_edges"):
            return None
        h = mesh.edges.get_attribute("hard_edges")
        return [tuple(int(x) for x in mesh.edges[i]) for i in range(len(mesh.edges)) if bool(h[i])]

    def _snapshot(self, mesh):
        """full durable state through the public containers"""
        out = {"class": type(mesh).__name__, "vertices": [[float(x) for x in v] for v in mesh.vertices]}
        for cn in ("edges", "faces", "cells"):
            if hasattr(mesh, cn):
                c = getattr(mesh, cn)
                out[cn] = [[int(x) for x in e] for e in c]
                out[cn + "_attr"] = {a: canon(c.get_attribute(a).as_array(len(c))) for a in sorted(c.attributes)}
        for cn in ("face_corners", "cell_corners", "cell_faces"):
            if hasattr(mesh, cn):
                c = getattr(mesh, cn)
                out[cn] = [list(map(int, c._elem)), list(map(int, c._adj))]
        return out

    # ------------------------------------------------------------------ later behaviour: a C01/C03-style query script
    def _query_script(self, slot, ev):
        from props import c01, c03
        mesh, nf = slot.mesh, slot.normal
        if not (slot.switches["ce"] and slot.switches["cf"]):
            return "no-script"  # connectivity over an incomplete edge list is outside C01/C03's domain
        r = Rng(h64(self.cfg["seed"], "qs", ev["qseed"]))
        fl = [[int(x) for x in f] for f in mesh.faces] if nf.dim >= 2 else []
        n = len(nf.points)
        ac = "%s/%s" % (slot.path, slot.flavour)
        self.probes["query_script"] += 1
        if nf.dim == 3 and all(len(c) == 4 for c in nf.cells):
            ref = RefVolume(nf.points, nf.cells, fl, [tuple(map(int, e)) for e in mesh.edges])
            if sorted(nf.edge_keys) != sorted(ref.edge_cells) or sorted(nf.face_keys) != sorted(ref.tri_cells):
                return "no-script"  # declared extras (a diagonal, a stray face): outside C03's domain
            helper = c03.C03()
            helper.cfg = {"sort": True, "miss_rate": 0.0, "world": {"points": nf.points, "cells": nf.cells, "orient": "mixed"}}
            helper.ref = ref
            bk = ref.border_edge_keys()
            helper.border_e = sorted(ref.eid[k] for k in bk)
            helper.interior_e = sorted(set(range(len(ref.edges))) - set(helper.border_e))
            names = ["f2c", "c2f", "c2c", "v2c", "c2e", "e2c", "e2f", "in_cell_face_index", "common_face", "other_face_side", "boundary_faces",
                     "interior_faces", "boundary_edges", "interior_edges", "boundary_vertices", "interior_vertices",
                     "is_face_on_border", "is_edge_on_border", "is_vertex_on_border", "f2e", "edge_id", "face_id"]
            Qt, judge = c03.Q, lambda q, mode, got, exp: c03.judge(mode, got, exp, True)
        elif nf.dim == 2 and is_oriented_manifold(n, fl):
            ref = RefSurface(n, fl, [tuple(map(int, e)) for e in mesh.edges])
            if sorted(nf.edge_keys) != sorted(ref.all_edge_pairs()):
                return "no-script"  # a declared edge that is no side of a face: outside C01's domain
            helper = c01.C01()
            helper.cfg = {"sort": True, "miss_rate": 0.0}
            helper.ref = ref
            helper.border_v = sorted(ref.border_vertices())
            helper.interior_v = sorted(set(range(n)) - set(helper.border_v))
            helper.edge_pairs = sorted(ref.all_edge_pairs())
            names = ["v2v", "v2f", "v2c", "v2e", "next", "opp", "he2c", "direct_face", "face_id", "f2f", "f2e", "f2v", "boundary_edges",
                     "interior_vertices", "is_edge_on_border", "edge_id", "common_edge", "in_face_index"]
            Qt, judge = c01.Q, lambda q, mode, got, exp: c01.judge(q, mode, got, exp, True)
        else:
            return "no-script"
        for _ in range(8):
            q = r.choice(names)
            args = helper._gen_args(r, q)
            fam, fn, expf, mode = Qt[q]
            o = call(fn, mesh, mesh.connectivity, *args)
            if not o.ok:
                self.exc_violation("no-later-behaviour-depends-on-row-type", q, o, ac, "%s%r raised on a mesh built through %s" % (q, tuple(args), ac))
            why = judge(q, mode, o.value, expf(ref, helper, *args))
            if why is not None:
                self.violation("no-later-behaviour-depends-on-row-type", q, "wrong_value", q, ac, "%s%r = %r; %s" % (q, tuple(args), canon(o.value), why))
        return "script-ok"

    # ------------------------------------------------------------------ step
    def step(self, ev):
        self.calls += 1
        op = ev["op"]
        M = self.M
        if op == "flip":
            self.sw[ev["key"]] = bool(ev["value"])
            M.config.complete_edges_from_faces = self.sw["ce"]
            M.config.complete_faces_from_cells = self.sw["cf"]
            self._pending_flip = True
            return "flipped"
        if op == "build":
            spec = self.spec
            if ev["path"] == "file_medit":  # the format groups faces by kind: the file says triangles first, then quadrilaterals
                spec = dict(spec, faces=[f for f in spec["faces"] if len(f) == 3] + [f for f in spec["faces"] if len(f) == 4],
                            cells=[c for c in spec["cells"] if len(c) == 4] + [c for c in spec["cells"] if len(c) == 8])
            normal = Normal(spec, self.sw["ce"], self.sw["cf"])
            o = self._build(ev, normal)
            ac = "%s/%s" % (ev["path"], ev["flavour"])
            if not o.ok:
                self.exc_violation("construction", op, o, ac + "/" + self.spec["kind"], "building the spec through %s raised" % ac)
            slot = Slot(o.value, normal, dict(self.sw), ev["path"], ev["flavour"])
            self.slots[ev["slot"]] = slot
            self.nbuild += 1
            self.seq.append("%s/%s/%d%d" % (ev["path"], ev["flavour"], self.sw["ce"], self.sw["cf"]))
            if ev["flavour"] in ("numpy", "tuple"):
                self.probes[ev["flavour"] + "_flavour"] += 1
            if normal.n_invalid:
                self.probes["invalid_edge_filtered"] += 1
            if not (self.sw["ce"] and self.sw["cf"]):
                self.probes["switch_off_build"] += 1
            if getattr(self, "_pending_flip", False):
                self.faults["config_flip"] += 1
                self._pending_flip = False
            self._observe(slot, ev["slot"], "build")
            return type(o.value).__name__
        slot = self.slots[ev["slot"]]
        if op == "observe":
            self.nobs += 1
            self._observe(slot, ev["slot"], "observe")
            return "ok"
        if op == "query_script":
            self.nobs += 1
            if self.spec.get("degenerate"):
                return "no-script"  # (connectivity queries on a face with a repeated vertex are outside C01's domain)
            return self._query_script(slot, ev)
        from mouette.mesh.mesh_data import RawMeshData
        if op == "rewrap_add_edges":
            self.faults["rewrap"] += 1
            self.probes["rewrap_with_more_edges"] += 1
            n = len(self.spec["points"])
            was = self._snapshot(slot.mesh)
            hard_before = self._hard(slot.mesh)
            d2 = RawMeshData(slot.mesh)
            d2.edges += rows(ev["rows"], ev["flavour"])
            ctor = type(slot.mesh) if ev["how"] == "class" else M.mesh.mesh._instanciate_raw_mesh_data
            o = call(ctor, d2)
            ac = "%s/%s+%s" % (slot.path, slot.flavour, ev["flavour"])
            # every mesh sharing the extended edge container (the wrapped one and its re-wrapped relatives) is no longer observed
            for k_ in [k_ for k_, s_ in self.slots.items() if getattr(s_.mesh, "edges", None) is slot.mesh.edges]:
                del self.slots[k_]
            if not o.ok:
                self.exc_violation("rebuild-changes-nothing", op, o, ac, "building again from a built mesh plus declared edges %r raised" % (ev["rows"],))
            now = self._snapshot(o.value)
            valid = [tuple(sorted(e)) for e in ev["rows"] if e[0] != e[1] and 0 <= e[0] < n and 0 <= e[1] < n]
            got = [tuple(e) for e in now.get("edges", [])]
            bad = [e for e in got if not (len(e) == 2 and e[0] != e[1] and 0 <= e[0] < n and 0 <= e[1] < n)]
            if bad:
                self.violation("invalid-edges-dropped", op, "wrong_value", "edges", ac, "appended rows %r: the rebuilt mesh keeps the invalid edges %r" % (ev["rows"], bad))
            if any(e[0] > e[1] for e in got):
                self.violation("edges-low-index-first", op, "wrong_value", "edges", ac, "appended rows %r: edges stored high index first: %r" % (ev["rows"], [e for e in got if e[0] > e[1]]))
            want = sorted([tuple(e) for e in was.get("edges", [])] + valid)
            if sorted(got) != want:
                self.violation("edges-declared-plus-sides-once", op, "wrong_value", "edges", ac,
                               "appended rows %r: edge list %r, expected the former edges plus the valid new ones %r" % (ev["rows"], sorted(got), want))
            for f in ("class", "vertices", "faces", "cells", "face_corners", "cell_corners", "cell_faces"):
                if now.get(f) != was.get(f):
                    self.violation("rebuild-changes-nothing", op, "wrong_value", f, ac, "appending declared edges and building again changed %s" % f)
            hard_now = self._hard(o.value)
            if hard_now is not None and not set(hard_now) <= set(hard_before or []) | set(valid):
                self.violation("only-declared-edges-hard", op, "wrong_value", "hard_edges", ac,
                               "hard edges %r, declared %r" % (sorted(hard_now), sorted(set(hard_before or []) | set(valid))))
            self.nobs += 1
            return "ok"
        # re-wrap: volatile _prepared flag lost, durable containers shared.  "building again from an already built mesh changes nothing"
        before = {k: self._snapshot(s.mesh) for k, s in self.slots.items()}
        self.faults["rewrap"] += 1
        self.probes["rewrap"] += 1
        if op == "prepare_again":
            raw = RawMeshData(slot.mesh)
            o = call(raw.prepare)
            o2 = call(raw.prepare)
            o = o if not o.ok else o2
            new = None
        elif op == "rewrap_same_class":
            o = call(lambda: type(slot.mesh)(RawMeshData(slot.mesh)))
            new = o.value
        else:
            o = call(lambda: M.mesh.mesh._instanciate_raw_mesh_data(RawMeshData(slot.mesh)))
            new = o.value
        ac = "%s/%s" % (slot.path, slot.flavour)
        if not o.ok:
            self.exc_violation("rebuild-changes-nothing", op, o, ac, "re-building an already built mesh raised")
        for k, s in self.slots.items():
            after = self._snapshot(s.mesh)
            if after != before[k]:
                diff = [f for f in after if after[f] != before[k].get(f)]
                self.violation("rebuild-changes-nothing", op, "state_corrupted", ",".join(diff), ac,
                               "re-building %s changed %s of mesh %s: before %r after %r" % (ev["slot"], diff, k, {f: before[k][f] for f in diff}, {f: after[f] for f in diff}))
        if new is not None:
            snap = self._snapshot(new)
            if snap != before[ev["slot"]]:
                diff = [f for f in snap if snap[f] != before[ev["slot"]].get(f)]
                self.violation("rebuild-changes-nothing", op, "wrong_value", ",".join(diff), ac,
                               "the re-built mesh differs from the mesh it was built from in %s" % (diff,))
            self.slots[ev["dst"]] = Slot(new, slot.normal, dict(slot.switches), slot.path, slot.flavour)
        self.nobs += 1
        return "ok"

    def finish(self):
        for name in sorted(self.slots):
            self._observe(self.slots[name], name, "end")

    def nontrivial(self):
        return self.nbuild >= 1 and self.nobs >= 1 and (self.spec["edges"] or self.spec["faces"] or self.spec["cells"])

    def class_key(self):
        s = self.spec
        inv = sorted({"loop" if a == b else "range" for a, b in s["edges"] if a == b or not (0 <= a < len(s["points"]) and 0 <= b < len(s["points"]))})
        return "%s e%d f%s c%s inv%s attr%s|%s" % (s["kind"], bool(s["edges"]), sorted({len(f) for f in s["faces"]}), sorted({len(c) for c in s["cells"]}), inv,
                                                  (s["eattr"] or {}).get("dense"), ">".join(self.seq[:5]))


SIM = C02
