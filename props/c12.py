"""C12 - bounding boxes and geometric primitives obey their algebra, with no side effects.

World: a pool of CALLER-OWNED float64 numpy arrays (d = 1..4; zero vectors, equal corners, inverted
corners, point sets, a 3x3 matrix), a pool of boxes built ON them (AABB(a, b), AABB(list, list),
of_points, unit_cube, infinite, of_mesh, AABB(box.mini, box.maxi), union / intersection results),
optionally one small mesh, and numpy's process-wide floating point error mode.

Clients (seeded programs sharing the pools, interleaved by a seeded bursty scheduler):
  box / box2   - build boxes, pad, union / |, intersection / &, do_intersect, contains_point, project,
                 distance (3 norms), is_empty, span / center / mini / maxi
  prim / prim2 - cross, dot, norm, distance, det_2x2 / det_3x3, cotan, angle_3pts, signed_angle_*, angle_2vec*,
                 face_basis, triangle_area*, quad_area, circumcenter, intersect_2lines2D, project_to_plane,
                 distance_to_segment2D, rotate_2d, rotate_around_axis, axis_rot_from_z, roots, angle_diff,
                 principal_angle, Vec.norm / normalized / normalize
  env          - FAULT 'errmode' (odd seeds): owns np.seterr; seeded initial mode, flips between calls
  rejector     - FAULT 'reject' (odd seeds): calls expected to raise (dimension mismatch, zero-vector
                 normalisation, degenerate triangles, unknown norm, bad shapes)

Oracles.  Per call: the law the statement names for it (quoted at each clause below), on inputs
classified NON-DEGENERATE from the exact binary values of the arrays; degenerate inputs are exercised
for the side-effect invariants only.  After EVERY library call, returning or raising:
  (S1) every caller array is bitwise what it was (the array viewed by Vec.normalize(), documented in
       place, is the only exemption),
  (S2) every box other than the documented target of pad() has the value of its RefAABB,
  (S3) the mesh vertices are what they were,
  (S4) np.geterr() is what the environment client last set.
A raising call is never a violation by itself unless the inputs were valid and non-degenerate for a
function with a stated law.  Law verdicts come before side-effect verdicts for the same call."""
import math
from fractions import Fraction

import numpy as np

from sim.engine import Sim, call, canon
from models.ref_aabb import RefAABB, vec_norm

ERR_KEYS = ("divide", "over", "under", "invalid")
DEFAULT_ERR = {"divide": "warn", "over": "warn", "under": "ignore", "invalid": "warn"}
PI = math.pi
TWO_PI_F = Fraction(2 * math.pi)
NORMS = ("l2", "l1", "linf")
MARGIN = Fraction(1, 1000)  # non-degeneracy margin on sines / cosines
REL = 1e-9  # relative tolerance on rounding-error scales (float64 gives ~1e-16 per operation)

# 1-D argument dimensions per primitive ('n' = any common dimension, '2+' = 2 or 3)
PRIM_ARGS = {
    "cross": (3, 3), "dot": ("n", "n"), "norm": ("n",), "vnorm": ("n",), "distance": ("n", "n"),
    "det2": ("2+", "2+"), "det2c": (), "det3": (3, 3, 3), "det3m": (), "cotan": (3, 3, 3), "angle_3pts": (3, 3, 3),
    "signed_angle_3pts": (3, 3, 3, 3), "signed_angle_2vec3D": (3, 3, 3), "angle_2vec2D": (2, 2),
    "angle_2vec3D": (3, 3), "face_basis": (3, 3, 3), "triangle_area": (3, 3, 3), "triangle_area_2D": (2, 2, 2),
    "quad_area": (3, 3, 3, 3), "circumcenter": (3, 3, 3), "lines2D": (2, 2, 2, 2), "project_to_plane": (3, 3, 3),
    "dist_segment2D": (2, 2, 2), "rotate_2d": (2, 2), "rotate_axis": (3, 3, 3), "axis_rot_from_z": (3,),
    "roots": (), "angle_diff": (), "principal_angle": (), "normalized": ("n",), "normalize": ("n",),
}
# primitives that go through Vec.normalized (they share its error-mode behaviour)
NORMFAM = ("cotan", "face_basis", "circumcenter", "rotate_axis", "axis_rot_from_z", "normalized")
PRIM_OPS = sorted(PRIM_ARGS)
BOX_QUERY_OPS = ["pad", "union", "inter", "do_intersect", "contains", "project", "bdistance", "is_empty", "access"]
BOX_QUERY_W = {"pad": 2, "union": 2, "inter": 3, "do_intersect": 2.5, "contains": 3, "project": 3, "bdistance": 2,
               "is_empty": 1, "access": 1}
MAX_ARRAYS = 26
MAX_BOXES = 12


# ------------------------------------------------------------------------------------------------
# exact arithmetic on the binary values of the floats
# ------------------------------------------------------------------------------------------------
def fx(vals):
    return [Fraction(float(v)) for v in vals]


def xsub(a, b):
    return [x - y for x, y in zip(a, b)]


def xdot(a, b):
    return sum((x * y for x, y in zip(a, b)), Fraction(0))


def xabsdot(a, b):
    return sum((abs(x * y) for x, y in zip(a, b)), Fraction(0))


def xcross(a, b):
    return [a[1] * b[2] - a[2] * b[1], a[2] * b[0] - a[0] * b[2], a[0] * b[1] - a[1] * b[0]]


def xcross_abs(a, b):
    return [abs(a[1] * b[2]) + abs(a[2] * b[1]), abs(a[2] * b[0]) + abs(a[0] * b[2]), abs(a[0] * b[1]) + abs(a[1] * b[0])]


def xdet3(r):
    t = [r[0][0] * r[1][1] * r[2][2], r[0][1] * r[1][2] * r[2][0], r[0][2] * r[1][0] * r[2][1],
         -r[0][0] * r[1][2] * r[2][1], -r[0][1] * r[1][0] * r[2][2], -r[0][2] * r[1][1] * r[2][0]]
    return sum(t, Fraction(0)), sum((abs(x) for x in t), Fraction(0))


def fsqrt(q):
    """sqrt of a non-negative Fraction as a float (magnitudes of this simulation never leave float range)"""
    if q <= 0:
        return 0.0
    return math.sqrt(float(q))


def xnorm(a):
    return fsqrt(xdot(a, a))


def is_num(x):
    """a finite real scalar (Python / numpy scalar, or a 0-d array such as the 0-d Vec that numpy reductions return)"""
    if isinstance(x, bool) or isinstance(x, (complex, np.complexfloating)):
        return False
    if isinstance(x, np.ndarray):
        if x.ndim != 0 or x.dtype.kind not in "fiu":
            return False
    elif not isinstance(x, (int, float, np.floating, np.integer)):
        return False
    return math.isfinite(float(x))


def as_floats(v, n=None):
    """library vector result -> list of finite floats, or None"""
    try:
        a = np.asarray(v, dtype=float).reshape(-1)
    except Exception:
        return None
    if n is not None and a.size != n:
        return None
    if not np.all(np.isfinite(a)):
        return None
    return [float(x) for x in a]


def err_class(mode):
    vs = {mode[k] for k in ERR_KEYS}
    if mode == DEFAULT_ERR:
        return "default"
    if len(vs) == 1:
        return "all:" + next(iter(vs))
    return "mixed"


def shape_of(vals):
    if vals and isinstance(vals[0], list):
        return (len(vals), len(vals[0]))
    return (len(vals),)


class C12(Sim):
    PROP = "C12"
    RULE = ("one run = a pool of caller-owned float64 arrays, a pool of boxes built on them (optionally a mesh) and numpy's "
            "error mode, driven by box/prim[/env/rejector] clients under a bursty seeded scheduler; after every library call "
            "the law named by the statement for that call is checked on non-degenerate inputs against exact rational "
            "arithmetic / RefAABB, then all caller arrays (bitwise), all other boxes (RefAABB), the mesh and np.geterr(); "
            "distinct = distinct (main dimension, magnitude class, initial error-mode class, op-kind set, interleaving hash); "
            "non-trivial = at least one law was evaluated on a non-degenerate input")
    FAULT_KINDS = ["reject", "errmode"]
    PROBES = ["zero_vector", "point_box", "empty_box", "empty_intersection", "infinite_box", "raising_call",
              "errmode_nondefault", "errmode_flip", "shared_array_boxes", "pad_aliased_box", "boundary_point", "contained_point",
              "outside_point", "degenerate_triangle", "parallel_lines", "parallel_vectors", "inplace_normalize", "mesh_box",
              "tiny_scale", "huge_scale", "same_array_twice", "needle_corner", "integer_vector_rotated", "mesh_vertex_moved", "caller_overwrites_array", "roots_asked_again", "extreme_corner", "near_unit_axis"]
    QUICK_RUNS = 8000
    THOROUGH_RUNS = 1000000
    BLOCK = 100
    ASSUMPTIONS = [
        "caller arrays are C-contiguous float64 (1-D vectors of dimension 1..4, (N,d) point arrays, one 3x3 matrix); integer arrays and "
        "Python lists as box corners are only used where they are copied by construction (AABB(list, list))",
        "all input coordinates are finite; non-zero coordinates have magnitude m*10^e with 1e-3 <= |m| <= 10 and one exponent e per "
        "array, e in {-40,-8,-3,0,3,8,40} per run (optionally +-3 per array): products of up to six coordinates stay inside the normal "
        "float64 range, so no law is evaluated where overflow/underflow is legitimate; infinities only occur as corners of AABB.infinite; "
        "the one exception is cotan_far: cotan on literal well-shaped corners of magnitude 1e+-60 .. 1e+-120, where squares of the sides "
        "stay normal float64 numbers (all the function needs after normalising its two sides)",
        "laws that need non-degenerate inputs are evaluated only when the exact rational classification says so with a margin: "
        "cotan (|sin|,|cos| of the angle >= 1e-3 for the reciprocal-tangent link, |sin| >= 1e-3 for the exact value, both sides "
        "longer than 1e-3 of the largest coordinate), signed-angle "
        "antisymmetry (|sin(V1,V2)| >= 1e-3 and |cos(V1xV2, N)| >= 1e-3), circumcenter (sine of every angle >= 0.05, every edge longer than 1e-3 of the largest coordinate), "
        "rotate_around_axis (axis != 0), roots (c != 0, 1 <= n <= 8), normalized (vec != 0); degenerate inputs are still executed, "
        "for the side-effect invariants only",
        "project / distance / union laws are evaluated on non-empty closed boxes (mini <= maxi); intersection with an inverted operand "
        "is only required to be empty; do_intersect with an inverted operand is required to be False (reported under its own argclass)",
        "contains_point is compared with the model only off the boundary (strictly inside => True, outside the closed box => False); "
        "either answer is accepted on the boundary (the statement does not fix the convention)",
        "tolerances: 1e-9 relative to the magnitude on which rounding errors live (sum of |products| for cross/dot/determinants, "
        "coordinate magnitude for distances, 1 for angles); containment of a projection / of union operands is exact up to 1e-12 relative",
        "functions without a named law (intersect_2lines2D, project_to_plane, distance_to_segment2D, quad_area, face_basis, "
        "axis_rot_from_z, pad, is_empty, span, center, unit_cube, infinite) are executed and logged but only judged by the side-effect invariants; "
        "dot / norm / distance / triangle_area* / normalized are judged against their textbook definitions under the statement's generic "
        "'primitives satisfy their identities'",
        "Vec.normalize (documented in place) is applied to pool arrays no box is built on; a box built with AABB(a, b) is NOT treated as "
        "entitled to write into a and b",
        "the environment client uses the modes ignore/warn/raise only (no 'call'/'print'/'log' handlers); fault-free runs start from numpy's "
        "default mode and never change it",
    ]
    COMPONENTS = {"real": ["mouette.geometry.aabb", "mouette.geometry.geometry", "mouette.geometry.rotations", "mouette.geometry.vector",
                           "mouette.utils.maths", "mouette.mesh.from_arrays (mesh for of_mesh)", "numpy (incl. its global error mode)"],
                  "stub": ["none (the error-mode seam is numpy's own np.seterr/np.geterr, owned by the environment client)"]}

    # ------------------------------------------------------------------------------------------
    # configuration / world generation
    # ------------------------------------------------------------------------------------------
    @staticmethod
    def _gen_comp(r):
        k = r.wchoice(["int", "half", "uni", "small", "zero"], [4, 2, 5, 1, 1])
        s = -1.0 if r.chance(0.5) else 1.0
        if k == "int":
            return s * float(r.randint(1, 6))
        if k == "half":
            return s * (r.randint(0, 9) + 0.5)
        if k == "uni":
            return s * r.uniform(0.01, 10.0)
        if k == "small":
            return s * r.uniform(0.001, 0.01)
        return 0.0

    @classmethod
    def _gen_vec(cls, r, d, e):
        return [cls._gen_comp(r) * (10.0 ** e) for _ in range(d)]

    @staticmethod
    def _offsets(r, d, e):
        return [(0.0 if r.chance(0.15) else r.choice([1.0, 0.5, 2.0, r.uniform(0.01, 8.0)])) * (10.0 ** e) for _ in range(d)]

    def gen_config(self, rng, tier):
        e0 = rng.wchoice([0, -3, 3, -8, 8, -40, 40], [8, 2, 2, 2, 1.5, 1, 1])
        jitter = rng.chance(0.3)
        maind = rng.wchoice([3, 2, 1, 4], [5, 3, 1, 1])
        arrays = []

        def expo():
            return e0 + (rng.randint(-3, 3) if jitter else 0)

        def add_family(d, n):
            for _ in range(n):
                e = expo()
                v = self._gen_vec(rng, d, e)
                arrays.append(v)
                if rng.chance(0.6):
                    arrays.append([x + o for x, o in zip(v, self._offsets(rng, d, e))])
        add_family(maind, rng.randint(1, 3))
        add_family(3, rng.randint(2, 3))
        add_family(2, rng.randint(1, 3))
        if rng.chance(0.3):
            add_family(rng.choice([1, 4]), 1)
        if rng.chance(0.35):
            arrays.append([0.0] * rng.choice([2, 3, 3, maind]))
        # a point set and a 3x3 matrix
        pd = rng.choice([maind, 2, 3])
        arrays.append([self._gen_vec(rng, pd, e0) for _ in range(rng.choice([1, 2, 3, 5]))])
        if rng.chance(0.6):
            arrays.append([self._gen_vec(rng, 3, e0) for _ in range(3)])
        mesh = None
        if rng.chance(0.3):
            mesh = [self._gen_vec(rng, 3, e0) for _ in range(rng.randint(1, 5))]
        clients = ["box", "prim"]
        if rng.chance(0.4):
            clients.append("box2")
        if rng.chance(0.4):
            clients.append("prim2")
        box_ops = ["create", "new_pt"] + [o for o in BOX_QUERY_OPS if o != "pad" and rng.chance(0.8)]
        if rng.chance(0.4):
            box_ops.append("pad")
        normfam_on = rng.chance(0.5)
        prim_ops = [o for o in PRIM_OPS if (o not in NORMFAM or normfam_on) and rng.chance(0.55)]
        if len(prim_ops) < 3:
            prim_ops += [o for o in ("cross", "det3", "angle_3pts", "angle_diff", "rotate_2d") if o not in prim_ops]
        # seeded initial error mode + flip weight (used by faulted runs only)
        kind = rng.wchoice(["all:warn", "default", "all:ignore", "all:raise", "mixed"], [3.5, 1.5, 1, 1.5, 2.5])
        if kind == "default":
            mode = dict(DEFAULT_ERR)
        elif kind == "mixed":
            mode = {k: rng.choice(["ignore", "warn", "raise"]) for k in ERR_KEYS}
        else:
            mode = {k: kind.split(":")[1] for k in ERR_KEYS}
        return {"arrays": arrays, "mesh": mesh, "e0": e0, "dim": maind, "clients": clients, "box_ops": box_ops,
                "prim_ops": prim_ops, "errmode0": mode, "flip_w": rng.choice([0, 0, 0.3, 1.0]),
                "reject_w": rng.choice([0.4, 1.0, 2.0]), "burst": rng.choice([0.2, 0.5, 0.8]),
                "max_steps": rng.randint(8, 40)}

    def shrink_cfgs(self, cfg):
        if cfg.get("mesh"):
            c = dict(cfg)
            c["mesh"] = None
            yield c
        if len(cfg["arrays"]) > 1:
            c = dict(cfg)
            c["arrays"] = cfg["arrays"][:-1]
            yield c
        if cfg.get("faults_on") and cfg["errmode0"] != DEFAULT_ERR:
            c = dict(cfg)
            c["errmode0"] = dict(DEFAULT_ERR)
            yield c

    # ------------------------------------------------------------------------------------------
    def start(self, cfg):
        import mouette  # noqa: F401
        from mouette import geometry as G
        from mouette.geometry import AABB, Vec
        from mouette.utils import maths
        self.G, self.AABB, self.Vec, self.maths = G, AABB, Vec, maths
        self.arr, self.snap = {}, {}
        self.wrapped = set()       # array ids some AABB(a, b) was built on
        self.box, self.ref, self.box_src, self.roots = {}, {}, {}, {}
        self.next_arr = self.next_box = 0
        self.laws = 0
        self.opkinds = set()
        self._deferred = None
        for vals in cfg["arrays"]:
            self._add_array(self.next_arr, vals)
        self.mesh = self.mesh_snap = None
        if cfg.get("mesh"):
            from mouette.mesh import from_arrays
            self.mesh = from_arrays(np.array(cfg["mesh"], dtype=float))
            self.mesh_snap = self._read_mesh()
        # the environment: seeded initial mode in faulted runs, numpy's default otherwise
        self.env = dict(cfg["errmode0"]) if cfg.get("faults_on") else dict(DEFAULT_ERR)
        np.seterr(**self.env)
        e0 = cfg["e0"]
        if e0 <= -8:
            self.probes["tiny_scale"] += 1
        if e0 >= 8:
            self.probes["huge_scale"] += 1

    # ------------------------------------------------------------------------------------------
    # pools
    # ------------------------------------------------------------------------------------------
    def _add_array(self, k, vals):
        a = np.array(vals, dtype=np.float64)
        self.arr[k] = a
        self.snap[k] = (a.shape, a.tobytes())
        self.next_arr = max(self.next_arr, k + 1)
        if a.ndim == 1 and not a.any():
            self.probes["zero_vector"] += 1

    def vals(self, i):
        return self.arr[i].tolist()

    def X(self, i):
        return fx(self.arr[i].tolist())

    def V(self, i):
        """the caller's array seen as a Vec (a view: shares the caller's memory)"""
        return self.Vec(self.arr[i])

    def ids_dim(self, d):
        return [i for i in sorted(self.arr) if self.arr[i].shape == (d,)]

    def ids_2d(self, d=None):
        return [i for i in sorted(self.arr) if self.arr[i].ndim == 2 and (d is None or self.arr[i].shape[1] == d)]

    def dims_present(self, need=1):
        out = []
        for d in (1, 2, 3, 4):
            if len(self.ids_dim(d)) >= need:
                out.append(d)
        return out

    def mag(self, ids):
        m = 0.0
        for i in ids:
            a = self.arr[i]
            if a.size:
                m = max(m, float(np.max(np.abs(a))))
        return m

    def sc(self, ids):
        m = self.mag(ids)
        if m == 0:
            return "zero"
        return "small" if m < 1e-5 else ("large" if m > 1e5 else "unit")

    def _read_box(self, b):
        return (np.asarray(b.mini, dtype=float).reshape(-1).tolist(), np.asarray(b.maxi, dtype=float).reshape(-1).tolist())

    def _read_mesh(self):
        return [np.asarray(v, dtype=float).tolist() for v in self.mesh.vertices]

    def _register_box(self, k, box, src):
        mini, maxi = self._read_box(box)
        self.box[k] = box
        self.ref[k] = RefAABB(mini, maxi)
        self.box_src[k] = src
        # memory the corners of this box may share: caller arrays it was built on / the box it was built from
        if src[0] == "ab":
            self.roots[k] = frozenset(("arr", i) for i in src[1:])
        elif src[0] == "from":
            self.roots[k] = self.roots[src[1]]
        else:
            self.roots[k] = frozenset([("own", k)])
        self.next_box = max(self.next_box, k + 1)
        r = self.ref[k]
        if not r.finite():
            self.probes["infinite_box"] += 1
        elif r.inverted():
            self.probes["empty_box"] += 1
        elif r.is_point():
            self.probes["point_box"] += 1
        return r

    # ------------------------------------------------------------------------------------------
    # one real library call + the side-effect invariants (S1..S4)
    # ------------------------------------------------------------------------------------------
    def _call(self, ev, fn, *args, arrs=(), boxes=(), target_box=None, target_arr=None, **kw):
        """Execute library code.  The side-effect verdict is computed immediately but DEFERRED (raised by
        _settle) so that the law of the same call can be judged first; no further library call is made
        while a side-effect verdict is pending."""
        self._settle()
        out = call(fn, *args, **kw)
        self.calls += 1
        if not out.ok:
            self.probes["raising_call"] += 1
            if ev["c"] == "rejector":
                self.faults["reject"] += 1
        self._deferred = self._state_diff(ev["op"], out, tuple(arrs), tuple(boxes), target_box, target_arr)
        return out

    def _settle(self):
        d, self._deferred = self._deferred, None
        if d is not None:
            self.violation(*d)

    def _state_diff(self, op, out, arrs, boxes, target_box, target_arr):
        how = "returned" if out.ok else "raised:" + type(out.exc).__name__
        # (S1) "No function changes the arrays passed to it ... whether it returns or raises"
        troots = self.roots.get(target_box, frozenset()) if target_box is not None else frozenset()
        for i in sorted(self.arr):
            a = self.arr[i]
            now = (a.shape, a.tobytes())
            if i == target_arr:
                self.snap[i] = now  # documented in-place target: exempt, model follows
                continue
            if a.dtype != np.float64 or now != self.snap[i]:
                if ("arr", i) in troots:
                    rel = "corner-array-of-target-box"
                elif i in arrs:
                    rel = "argument"
                else:
                    rel = "bystander"
                before = np.frombuffer(self.snap[i][1], dtype=np.float64).reshape(self.snap[i][0]).tolist()
                return ("caller-arrays-unchanged", op, "state_corrupted", "caller-array", rel,
                        "%s %s; caller array #%d was %r and is now %r" % (op, how, i, before, a.tolist()))
        # (S2) "... any box ... other than the one it is documented to modify"
        for k in sorted(self.box):
            mini, maxi = self._read_box(self.box[k])
            if k == target_box:
                self.ref[k] = RefAABB(mini, maxi)  # pad(): documented target, exempt, model follows
                continue
            if not self.ref[k].same_values(mini, maxi):
                src = self.box_src.get(k, ())
                if self.roots[k] & troots:
                    rel = "shares-corners-with-target-box"
                elif k in boxes:
                    rel = "argument"
                else:
                    rel = "bystander"
                return ("other-boxes-unchanged", op, "state_corrupted", "box", rel,
                        "%s %s; box #%d (%r) was %r and is now (%r, %r)" % (op, how, k, src, self.ref[k], mini, maxi))
        # (S3) "... or mesh ..."
        if self.mesh is not None and self._read_mesh() != self.mesh_snap:
            return ("mesh-unchanged", op, "state_corrupted", "mesh", "", "%s %s; mesh vertices were %r, are %r" % (
                op, how, self.mesh_snap, self._read_mesh()))
        # (S4) "... or numpy's floating-point error configuration, whether it returns or raises"
        cur = np.geterr()
        if cur != self.env:
            return ("errmode-unchanged", op, "global_state_changed", "np.geterr",
                    ("returned" if out.ok else "raised") + "/left=" + err_class(cur),
                    "%s %s; np.geterr() was %r (set by the environment), is now %r" % (op, how, self.env, cur))
        return None

    def _done(self, out, extra=None):
        """end of a step: raise the pending side-effect verdict, return the logged outcome"""
        self._settle()
        if out is None:
            return extra
        if not out.ok:
            return out.brief()
        v = out.value
        if isinstance(v, self.AABB):
            v = list(self._read_box(v))
        r = canon(v)
        return r if extra is None else [r, extra]

    def _bad_value(self, clause, op, site, argclass, detail):
        self.violation(clause, op, "wrong_value", site, argclass, detail)

    # ------------------------------------------------------------------------------------------
    # scheduling / proposing
    # ------------------------------------------------------------------------------------------
    def propose(self, rng):
        cfg = self.cfg
        names, weights = [], []
        for n in cfg["clients"]:
            names.append(n)
            weights.append(1.0)
        if cfg["faults_on"]:
            if cfg["flip_w"] > 0:
                names.append("env")
                weights.append(cfg["flip_w"])
            names.append("rejector")
            weights.append(cfg["reject_w"])
        c = self.pick_client(rng, names, weights, cfg["burst"])
        r = self.client_rng(c)
        if c.startswith("box"):
            ev = self._prop_box(r)
        elif c.startswith("prim"):
            ev = self._prop_prim(r)
        elif c == "env":
            ev = self._prop_env(r)
        else:
            ev = self._prop_rej(r)
        ev["c"] = c
        return ev

    def _expo(self, r):
        return self.cfg["e0"] + (r.randint(-2, 2) if r.chance(0.15) else 0)

    def _new_arr(self, vals):
        return {"op": "new_arr", "id": self.next_arr, "vals": vals}

    def _prop_new_vec(self, r, d, kind=None):
        """a new caller array of dimension d (literal values in the event)"""
        same = self.ids_dim(d)
        kind = kind or r.wchoice(["rand", "hi_of", "copy", "scaled", "zero"], [5, 3, 1, 1.5, 0.7])
        e = self._expo(r)
        if kind in ("hi_of", "copy", "scaled") and not same:
            kind = "rand"
        if kind == "rand":
            return self._new_arr(self._gen_vec(r, d, e))
        if kind == "zero":
            return self._new_arr([0.0] * d)
        base = self.vals(r.choice(same))
        if kind == "copy":
            return self._new_arr(list(base))
        if kind == "scaled":
            k = r.choice([-1.0, 2.0, 0.5, -3.0])
            return self._new_arr([k * x for x in base])
        return self._new_arr([x + o for x, o in zip(base, self._offsets(r, d, e))])

    def _prop_point_for(self, r, k):
        """a new point placed relative to box k: inside / on the boundary / outside"""
        ref = self.ref[k]
        e = self._expo(r)
        mode = r.wchoice(["in", "edge", "out", "any"], [3, 3, 3, 1])
        vals = []
        for a, b in zip(ref.mini, ref.maxi):
            if not (math.isfinite(a) and math.isfinite(b)):
                vals.append(self._gen_comp(r) * 10.0 ** e)
                continue
            if mode == "in":
                t = r.choice([0.5, 0.25, 0.75, r.uniform(0.05, 0.95)])
            elif mode == "edge":
                t = r.choice([0.0, 1.0, 0.5, 0.0, 1.0])
            elif mode == "out":
                t = r.choice([-0.5, 1.5, 2.0, -1.0, 0.5, 0.5])
            else:
                t = r.uniform(-1.0, 2.0)
            if a == b:
                x = a + (t - 0.5) * (10.0 ** e) * r.choice([0.0, 1.0, 1.0])
            elif t == 1.0:
                x = b
            else:
                x = a + t * (b - a)
            vals.append(float(x))
        return self._new_arr(vals)

    def _proper_pairs(self, d):
        ids = self.ids_dim(d)
        out = []
        for i in ids:
            vi = self.vals(i)
            for j in ids:
                if i != j and all(x <= y for x, y in zip(vi, self.vals(j))):
                    out.append((i, j))
        return out

    def _prop_newbox(self, r):
        kinds, w = ["ab", "lists", "pts", "unit", "inf"], [6, 1, 2, 1, 0.5]
        if self.mesh is not None:
            kinds.append("mesh")
            w.append(1.5)
        if self.box:
            kinds.append("from")
            w.append(1.5)
        kind = r.wchoice(kinds, w)
        k = self.next_box
        dims = self.dims_present(1)
        d = self.cfg["dim"] if (self.cfg["dim"] in dims and r.chance(0.6)) else r.choice(dims)
        if kind == "ab":
            ids = self.ids_dim(d)
            if r.chance(0.75):
                pp = self._proper_pairs(d)
                if not pp:
                    if len(self.arr) < MAX_ARRAYS:
                        return self._prop_new_vec(r, d, "hi_of")
                    return {"op": "box_unit", "id": k, "dim": d, "centered": False}
                i, j = r.choice(pp)
            else:
                i, j = r.choice(ids), r.choice(ids)
            return {"op": "box_ab", "id": k, "a": [i, j]}
        if kind == "lists":
            e = self._expo(r)
            lo = self._gen_vec(r, d, e)
            return {"op": "box_lists", "id": k, "lo": lo, "hi": [x + o for x, o in zip(lo, self._offsets(r, d, e))]}
        if kind == "pts":
            if r.chance(0.5) and self.ids_2d():
                return {"op": "box_pts", "id": k, "src": r.choice(self.ids_2d()), "pad": 0.0 if r.chance(0.85) else 0.5 * 10.0 ** self.cfg["e0"]}
            ids = self.ids_dim(d)
            n = r.choice([1, 2, 3, 4])
            return {"op": "box_pts", "id": k, "a": [r.choice(ids) for _ in range(n)], "pad": 0.0 if r.chance(0.85) else 0.5 * 10.0 ** self.cfg["e0"]}
        if kind == "unit":
            return {"op": "box_unit", "id": k, "dim": d, "centered": r.chance(0.5)}
        if kind == "inf":
            return {"op": "box_inf", "id": k, "dim": d}
        if kind == "mesh":
            if r.chance(0.4):
                # the caller moves a vertex of ITS mesh (same vertex count): a later box of the mesh must be tight again
                i = r.below(len(self.mesh_snap))
                e = self.cfg["e0"]
                return {"op": "move_mesh_vertex", "i": i, "p": [self._gen_comp(r) * 10.0 ** e * r.choice([1.0, 3.0]) for _ in range(3)]}
            return {"op": "box_mesh", "id": k, "pad": 0.0 if r.chance(0.8) else 10.0 ** self.cfg["e0"]}
        return {"op": "box_from", "id": k, "b": [r.choice(sorted(self.box))]}

    def _prop_box(self, r):
        ops = self.cfg["box_ops"]
        nb = len(self.box)
        if nb == 0 or (nb < 3 and r.chance(0.5)) or (nb < MAX_BOXES and r.chance(0.12)):
            return self._prop_newbox(r)
        q = [o for o in ops if o in BOX_QUERY_W]
        if not q:
            q = ["contains", "project"]
        op = r.wchoice(q, [BOX_QUERY_W[o] for o in q])
        ks = sorted(self.box)
        k = r.choice(ks)
        ref = self.ref[k]
        if op == "pad":
            how = r.wchoice(["float", "arr", "list"], [5, 2, 2])
            e = self.cfg["e0"]
            if how == "arr" and self.ids_dim(ref.dim):
                return {"op": "pad", "b": [k], "a": [r.choice(self.ids_dim(ref.dim))]}
            if how == "list":
                return {"op": "pad", "b": [k], "pl": [r.choice([0.5, 1.0, -1.0, 0.0, 2.0]) * 10.0 ** e for _ in range(ref.dim)]}
            return {"op": "pad", "b": [k], "pf": r.choice([0.5, 1.0, 0.25, -1.0, 0.0, 3.0]) * 10.0 ** e}
        if op in ("union", "inter", "do_intersect"):
            same = [x for x in ks if self.ref[x].dim == ref.dim]
            k2 = r.choice(same)
            ev = {"op": op, "b": [k, k2]}
            if op != "do_intersect":
                if nb >= MAX_BOXES:
                    return {"op": "do_intersect", "b": [k, k2]}
                ev["id"] = self.next_box
                ev["how"] = r.choice(["static", "operator", "augmented"])
            return ev
        if op in ("contains", "project", "bdistance"):
            cands = self.ids_dim(ref.dim)
            if (not cands or r.chance(0.4)) and len(self.arr) < MAX_ARRAYS:
                return self._prop_point_for(r, k)
            if not cands:
                return {"op": "is_empty", "b": [k]}
            ev = {"op": op, "b": [k], "a": [r.choice(cands)], "wrap": r.choice(["nd", "vec"])}
            if op == "bdistance":
                ev["which"] = r.choice(NORMS)
            return ev
        if op == "access":
            return {"op": "access", "b": [k], "what": r.choice(["span", "center", "mini", "maxi", "dim"])}
        return {"op": "is_empty", "b": [k]}

    def _angle(self, r):
        return r.choice([0.0, PI / 2, -PI / 2, PI, 2 * PI, 1.0, -1.0, 1e-13, 100.5, r.uniform(-7.0, 7.0), r.uniform(-7.0, 7.0)])

    def _pick_ids(self, r, spec):
        """array ids matching a PRIM_ARGS spec, or a 'new_arr' event creating what is missing"""
        n_any = None
        ids = []
        distinct = r.chance(0.9)
        for s in spec:
            if s == "n":
                if n_any is None:
                    cnt = sum(1 for t in spec if t == "n")
                    ds = self.dims_present(cnt if distinct else 1) or self.dims_present(1)
                    n_any = r.choice(ds)
                d = n_any
            elif s == "2+":
                d = r.choice([2, 2, 3])
            else:
                d = s
            pool = [i for i in self.ids_dim(d) if not (distinct and i in ids)]
            if not pool:
                if len(self.arr) < MAX_ARRAYS:
                    return None, self._prop_new_vec(r, d)
                pool = self.ids_dim(d)
                if not pool:
                    return None, None
            ids.append(r.choice(pool))
        return ids, None

    def _prop_prim(self, r):
        ops = self.cfg["prim_ops"]
        if len(self.arr) < MAX_ARRAYS and r.chance(0.08):
            return self._prop_new_vec(r, r.choice([2, 3, 3]))
        d3 = self.ids_dim(3)
        if len(self.arr) < MAX_ARRAYS and len(d3) >= 2 and ("cotan" in ops or "angle_3pts" in ops) and r.chance(0.05):
            # a needle corner: C almost on the line (B, A), so that the angle ABC is within 1e-7 .. 1e-3 rad of 0 or pi
            ia, ib = r.sample(d3, 2)
            A, B = self.vals(ia), self.vals(ib)
            k = r.choice([2.0, 0.5, -1.0, 3.0, -0.25])
            side = max(abs(a - b) for a, b in zip(A, B))
            if side > 0:
                tiny = r.choice([1e-3, 1e-4, 1e-5, 1e-6, 3e-7]) * side
                j = r.below(3)
                C = [b + k * (a - b) + (tiny if q == j else 0.0) for q, (a, b) in enumerate(zip(A, B))]
                self._sliver = [ia, ib, self.next_arr]
                return self._new_arr(C)
        if len(self.arr) < MAX_ARRAYS and "rotate_axis" in ops and r.chance(0.04):
            # an axis that is ALMOST a unit vector (a float32-normalised normal, a unit vector after a few operations): length 1 +- 1e-10 .. 1e-6
            g = [self._gen_comp(r) for _ in range(3)]
            ln = math.sqrt(sum(x * x for x in g))
            if ln > 0:
                k = 1.0 + r.choice([4e-7, -4e-7, 6e-8, -6e-8, 9e-7, 1e-10, -3e-9])
                self._near_axis = self.next_arr
                return self._new_arr([x / ln * k for x in g])
        if "cotan" in ops and r.chance(0.04):
            # a well-shaped corner very far from / very close to the origin of the exponent range ("all finite inputs"): literal points,
            # exponent +-60 .. +-120 (squares of the sides stay normal float64 numbers, sixth powers do not)
            E = r.choice([-120, -90, -81, -60, 60, 90, 120])
            B = self._gen_vec(r, 3, E)
            L = r.uniform(0.5, 8.0) * 10.0 ** E
            th = r.uniform(0.2, 2.9)
            j, k = r.sample([0, 1, 2], 2)
            q = r.uniform(0.3, 3.0)
            A = [b + (L if t == j else 0.0) for t, b in enumerate(B)]
            C = [b + (q * L * math.cos(th) if t == j else (q * L * math.sin(th) if t == k else 0.0)) for t, b in enumerate(B)]
            return {"op": "cotan_far", "pts": [A, B, C]}
        rp = getattr(self, "_replay_ev", None)
        if rp is not None:
            self._replay_ev = None
            if all(i in self.arr for i in rp["a"]):
                return dict(rp, a=list(rp["a"]))
        lr = getattr(self, "_last_rot", None)
        if r.chance(0.07):
            # the CALLER overwrites one of its own arrays in place (no box is built on it); every later call must see the new numbers.
            # Preferably the axis / vector of the last rotation, which is then asked again with the same angle.
            free = [i for i in sorted(self.arr) if i not in self.wrapped and self.arr[i].ndim == 1]
            pref = [i for i in (lr["a"] if lr else []) if i in free]
            if free:
                i = r.choice(pref) if pref and r.chance(0.7) else r.choice(free)
                if pref and i in pref:
                    self._replay_ev = lr
                d = self.arr[i].shape[0]
                vals = self._gen_vec(r, d, self._expo(r)) if r.chance(0.7) else [-x for x in self.vals(i)]
                return {"op": "overwrite", "a": [i], "vals": vals}
        op = r.choice(ops)
        sl = getattr(self, "_sliver", None)
        if sl and op in ("cotan", "angle_3pts") and all(i in self.arr for i in sl) and r.chance(0.6):
            return {"op": op, "a": list(sl)}
        if op == "roots":
            e = r.choice([0, 0, -3, 3])
            c = [self._gen_comp(r) * 10.0 ** e, self._gen_comp(r) * 10.0 ** e]
            if r.chance(0.05):
                c = [0.0, 0.0]
            return {"op": op, "z": c, "n": r.randint(1, 8), "normalize": r.chance(0.75), "twice": r.chance(0.3)}
        if op == "angle_diff":
            big = r.choice([1.0, 1.0, 10.0, 1e3, 1e6])
            return {"op": op, "x": self._angle(r) * big, "y": self._angle(r), "np": r.chance(0.25)}
        if op == "principal_angle":
            big = r.choice([1.0, 1.0, 10.0, 1e3, 1e6])
            return {"op": op, "x": self._angle(r) * big, "np": r.chance(0.25)}
        if op == "det2c":
            e = self.cfg["e0"]
            return {"op": op, "za": [self._gen_comp(r) * 10.0 ** e, self._gen_comp(r) * 10.0 ** e],
                    "zb": [self._gen_comp(r) * 10.0 ** e, self._gen_comp(r) * 10.0 ** e]}
        if op == "det3m":
            ms = [i for i in self.ids_2d(3) if self.arr[i].shape == (3, 3)]
            if not ms:
                if len(self.arr) >= MAX_ARRAYS:
                    op = "det3"
                else:
                    e = self._expo(r)
                    return self._new_arr([self._gen_vec(r, 3, e) for _ in range(3)])
            else:
                return {"op": op, "a": [r.choice(ms)]}
        ids, mk = self._pick_ids(r, PRIM_ARGS[op])
        if ids is None:
            return mk if mk is not None else {"op": "angle_diff", "x": 1.0, "y": 2.0, "np": False}
        na = getattr(self, "_near_axis", None)
        if op == "rotate_axis" and na is not None and na in self.arr and r.chance(0.6):
            ids[1] = na
        ev = {"op": op, "a": ids}
        if op in ("norm", "vnorm", "distance", "normalized", "normalize"):
            ev["which"] = r.choice(NORMS)
        if op in ("rotate_2d", "rotate_axis"):
            ev["ang"], ev["ang2"] = self._angle(r), self._angle(r)
            if r.chance(0.3):
                # the same rotation applied to an INTEGER-typed vector (Vec(1, 0, 2), a list of ints): still an isometry
                n = 2 if op == "rotate_2d" else 3
                iv = [r.randint(-6, 6) for _ in range(n)]
                if any(iv):
                    ev["ivec"] = iv
        if op in ("rotate_2d", "rotate_axis"):
            self._last_rot = ev
        if op == "face_basis":
            ev["form"] = r.choice(["args", "list"])
        if op in ("norm", "dot", "det2", "det3", "normalized"):
            ev["wrap"] = r.choice(["nd", "vec"])
        return ev

    def _prop_env(self, r):
        kind = r.wchoice(["all:warn", "default", "all:ignore", "all:raise", "mixed"], [2, 2, 1, 2, 3])
        if kind == "default":
            mode = dict(DEFAULT_ERR)
        elif kind == "mixed":
            mode = {k: r.choice(["ignore", "warn", "raise"]) for k in ERR_KEYS}
        else:
            mode = {k: kind.split(":")[1] for k in ERR_KEYS}
        return {"op": "seterr", "mode": mode}

    def _prop_rej(self, r):
        """calls expected to raise: wrong dimensions, zero vectors, degenerate triangles, bad shapes, bad options"""
        ks = sorted(self.box)
        kinds = ["ab", "cross2d", "dotmis", "roots0", "normzero", "rotzero", "cotan_deg", "fb_deg", "cc_deg", "which",
                 "pts1d", "det3shape", "lines_par"]
        if ks:
            kinds += ["point", "point", "binop", "padsize", "bwhich"]
        # swarm: the degenerate calls into the Vec.normalized family are only issued in runs where that op kind is enabled
        on = set(self.cfg["prim_ops"])
        need = {"normzero": "normalized", "rotzero": "rotate_axis", "cotan_deg": "cotan", "fb_deg": "face_basis", "cc_deg": "circumcenter"}
        kinds = [k for k in kinds if need.get(k, "") in on or k not in need]
        kind = r.choice(kinds)
        dims = self.dims_present(1)
        d3, d2 = self.ids_dim(3), self.ids_dim(2)
        zeros3 = [i for i in d3 if not self.arr[i].any()]

        def other_dim_arr(d):
            cands = [i for i in sorted(self.arr) if self.arr[i].ndim == 1 and self.arr[i].shape != (d,)]
            return r.choice(cands) if cands else None
        if kind == "ab" and len(dims) >= 2:
            da, db = r.sample(dims, 2)
            return {"op": "box_ab", "id": self.next_box, "a": [r.choice(self.ids_dim(da)), r.choice(self.ids_dim(db))], "bad": True}
        if kind == "point":
            k = r.choice(ks)
            i = other_dim_arr(self.ref[k].dim)
            if i is not None:
                op = r.choice(["contains", "project", "bdistance"])
                ev = {"op": op, "b": [k], "a": [i], "wrap": "nd", "bad": True}
                if op == "bdistance":
                    ev["which"] = r.choice(NORMS)
                return ev
        if kind == "bwhich":
            k = r.choice(ks)
            c = self.ids_dim(self.ref[k].dim)
            if c:
                return {"op": "bdistance", "b": [k], "a": [r.choice(c)], "wrap": "nd", "which": r.choice(["l3", "L2", ""]), "bad": True}
        if kind == "binop":
            k = r.choice(ks)
            others = [x for x in ks if self.ref[x].dim != self.ref[k].dim]
            if others:
                ev = {"op": r.choice(["union", "inter", "do_intersect"]), "b": [k, r.choice(others)], "bad": True}
                if ev["op"] != "do_intersect":
                    ev["id"], ev["how"] = self.next_box, r.choice(["static", "operator", "augmented"])
                return ev
            if len(self.box) < MAX_BOXES:
                return {"op": "box_unit", "id": self.next_box, "dim": self.ref[k].dim % 4 + 1, "centered": False}
        if kind == "padsize":
            k = r.choice(ks)
            i = other_dim_arr(self.ref[k].dim)
            if i is not None:
                return {"op": "pad", "b": [k], "a": [i], "bad": True}
        if kind == "cross2d" and len(d2) >= 1:
            return {"op": "cross", "a": [r.choice(d2), r.choice(d2)], "bad": True}
        if kind == "dotmis" and d2 and d3:
            return {"op": "dot", "a": [r.choice(d3), r.choice(d2)], "wrap": "nd", "bad": True}
        if kind == "roots0":
            return {"op": "roots", "z": [1.0, 1.0], "n": 0, "normalize": r.chance(0.5), "bad": True}
        if kind in ("normzero", "rotzero") and not zeros3:
            if len(self.arr) < MAX_ARRAYS:
                return self._new_arr([0.0, 0.0, 0.0])
        if kind == "normzero" and zeros3:
            return {"op": "normalized", "a": [r.choice(zeros3)], "which": r.choice(NORMS), "wrap": r.choice(["nd", "vec"])}
        if kind == "rotzero" and zeros3 and d3:
            i = r.choice(d3)
            return {"op": "rotate_axis", "a": [i, r.choice(zeros3), i], "ang": 1.0, "ang2": 0.5}
        if kind in ("cotan_deg", "fb_deg", "cc_deg") and len(d3) >= 2:
            i, j = r.choice(d3), r.choice(d3)
            op = {"cotan_deg": "cotan", "fb_deg": "face_basis", "cc_deg": "circumcenter"}[kind]
            ev = {"op": op, "a": r.choice([[i, i, j], [i, j, j], [i, j, i], [i, i, i]])}
            if op == "face_basis":
                ev["form"] = "args"
            return ev
        if kind == "which" and d3:
            return {"op": "norm", "a": [r.choice(d3)], "which": r.choice(["l3", "max"]), "wrap": "nd", "bad": True}
        if kind == "pts1d" and d3:
            return {"op": "box_pts", "id": self.next_box, "src": r.choice(d3), "pad": 0.0, "bad": True}
        if kind == "det3shape":
            c = [i for i in self.ids_2d() if self.arr[i].shape != (3, 3)]
            if c:
                return {"op": "det3m", "a": [r.choice(c)], "bad": True}
        if kind == "lines_par" and len(d2) >= 2:
            p1, p2, dd = r.choice(d2), r.choice(d2), r.choice(d2)
            return {"op": "lines2D", "a": [p1, dd, p2, dd]}
        return {"op": "roots", "z": [0.0, 0.0], "n": 0, "normalize": True, "bad": True}

    # ------------------------------------------------------------------------------------------
    # guards: every subsequence of a history is a valid history
    # ------------------------------------------------------------------------------------------
    def _vec_ok(self, i, d=None):
        a = self.arr[i]
        return a.ndim == 1 and (d is None or a.shape[0] == d)

    def _dims_ok(self, ev):
        op = ev["op"]
        A = ev.get("a", [])
        B = ev.get("b", [])
        if op == "box_ab":
            return len(A) == 2 and self._vec_ok(A[0]) and self.arr[A[0]].shape == self.arr[A[1]].shape
        if op == "box_pts":
            if "src" in ev:
                s = self.arr[ev["src"]]
                return s.ndim == 2 and s.shape[0] >= 1
            return len(A) >= 1 and self._vec_ok(A[0]) and all(self.arr[i].shape == self.arr[A[0]].shape for i in A)
        if op == "pad":
            d = self.ref[B[0]].dim
            if A:
                return self._vec_ok(A[0], d)
            if "pl" in ev:
                return len(ev["pl"]) == d
            return True
        if op in ("union", "inter", "do_intersect"):
            return self.ref[B[0]].dim == self.ref[B[1]].dim
        if op in ("contains", "project", "bdistance"):
            return self._vec_ok(A[0], self.ref[B[0]].dim) and (op != "bdistance" or ev["which"] in NORMS)
        if op == "det3m":
            return self.arr[A[0]].shape == (3, 3)
        if op in PRIM_ARGS:
            spec = PRIM_ARGS[op]
            if len(A) != len(spec):
                return False
            n_any = None
            for i, s in zip(A, spec):
                if not self._vec_ok(i):
                    return False
                d = self.arr[i].shape[0]
                if s == "n":
                    if n_any is None:
                        n_any = d
                    if d != n_any:
                        return False
                elif s == "2+":
                    if d not in (2, 3):
                        return False
                elif d != s:
                    return False
            if "which" in ev and ev["which"] not in NORMS:
                return False
            return True
        return True

    def applicable(self, ev):
        op = ev["op"]
        if op == "seterr":
            return True
        if op == "new_arr":
            return ev["id"] not in self.arr
        for i in ev.get("a", []):
            if i not in self.arr:
                return False
        if "src" in ev and ev["src"] not in self.arr:
            return False
        for k in ev.get("b", []):
            if k not in self.box:
                return False
        if "id" in ev and ev["id"] in self.box:
            return False
        if op == "overwrite":
            i = ev["a"][0]
            return i not in self.wrapped and self.arr[i].shape == (len(ev["vals"]),)
        if op == "box_mesh" and self.mesh is None:
            return False
        if op == "move_mesh_vertex":
            return self.mesh is not None and ev["i"] < len(self.mesh_snap)
        if ev.get("bad"):
            return True
        return self._dims_ok(ev)

    # ------------------------------------------------------------------------------------------
    # step
    # ------------------------------------------------------------------------------------------
    def step(self, ev):
        op = ev["op"]
        self.opkinds.add(op)
        if op == "new_arr":
            self._add_array(ev["id"], ev["vals"])
            return list(self.arr[ev["id"]].shape)
        if op == "overwrite":
            a = self.arr[ev["a"][0]]
            a[:] = ev["vals"]
            self.snap[ev["a"][0]] = (a.shape, a.tobytes())
            self.probes["caller_overwrites_array"] += 1
            return "overwritten"
        if op == "move_mesh_vertex":
            self.mesh.vertices[ev["i"]] = self.Vec(np.array(ev["p"], dtype=float))
            self.mesh_snap = self._read_mesh()
            self.probes["mesh_vertex_moved"] += 1
            return "moved"
        if op == "seterr":
            np.seterr(**ev["mode"])
            self.env = dict(ev["mode"])
            self.probes["errmode_flip"] += 1
            return err_class(self.env)
        if not ev.get("bad") and not self._dims_ok(ev):
            raise ValueError("generator produced an ill-typed event %r" % (ev,))
        if self.env != DEFAULT_ERR:
            self.probes["errmode_nondefault"] += 1
            if self.cfg.get("faults_on"):
                self.faults["errmode"] += 1
        if len(set(ev.get("a", []))) < len(ev.get("a", [])):
            self.probes["same_array_twice"] += 1
        res = getattr(self, "_op_" + op)(ev)
        self._settle()
        return res

    def finish(self):
        self._settle()

    def nontrivial(self):
        return self.laws > 0

    def class_key(self):
        mode = self.cfg["errmode0"] if self.cfg.get("faults_on") else DEFAULT_ERR
        return "d=%d|e=%d|err=%s|mesh=%d|%s" % (self.cfg["dim"], self.cfg["e0"], err_class(mode), int(self.mesh is not None),
                                              ",".join(sorted(self.opkinds)))

    # ------------------------------------------------------------------------------------------
    # box constructors
    # ------------------------------------------------------------------------------------------
    def _new_box(self, ev, out, src, clause="construct"):
        """register the result of a constructor call; a constructor failing on well-formed finite corners is reported"""
        if not out.ok:
            if not ev.get("bad"):
                self.exc_violation(clause, ev["op"], out, "", "constructor raised on well-formed input")
            return None
        if not isinstance(out.value, self.AABB):
            if ev.get("bad"):
                return None
            self._bad_value(clause, ev["op"], "AABB", "", "constructor returned %r" % (type(out.value).__name__,))
        if ev.get("bad"):
            return None  # unexpectedly accepted (e.g. nothing to refuse): the box is not kept
        return self._register_box(ev["id"], out.value, src)

    def _op_box_ab(self, ev):
        i, j = ev["a"]
        out = self._call(ev, self.AABB, self.arr[i], self.arr[j], arrs=(i, j))
        ref = self._new_box(ev, out, ("ab", i, j))
        if ref is not None:
            if any(self.roots[k] & self.roots[ev["id"]] for k in self.box if k != ev["id"]):
                self.probes["shared_array_boxes"] += 1
            self.wrapped |= {i, j}
            if not ref.same_values(self.vals(i), self.vals(j)):
                self._bad_value("construct", "box_ab", "AABB", "", "AABB(a, b) has corners %r, a=%r b=%r" % (ref, self.vals(i), self.vals(j)))
        return self._done(out)

    def _op_box_lists(self, ev):
        out = self._call(ev, self.AABB, list(ev["lo"]), list(ev["hi"]))
        ref = self._new_box(ev, out, ("own",))
        if ref is not None and not ref.same_values(ev["lo"], ev["hi"]):
            self._bad_value("construct", "box_lists", "AABB", "", "AABB(lo, hi) has corners %r" % (ref,))
        return self._done(out)

    def _op_box_pts(self, ev):
        if "src" in ev:
            arrs = (ev["src"],)
            arg = self.arr[ev["src"]]
            pts = self.vals(ev["src"])
        else:
            arrs = tuple(ev["a"])
            arg = [self.arr[i] for i in ev["a"]]
            pts = [self.vals(i) for i in ev["a"]]
        pad = ev.get("pad", 0.0)
        if pad == 0.0:
            out = self._call(ev, self.AABB.of_points, arg, arrs=arrs)
        else:
            out = self._call(ev, self.AABB.of_points, arg, pad, arrs=arrs)
        ref = self._new_box(ev, out, ("own",), "of-points-tight")
        if ref is not None and pad == 0.0:
            # "the box of a point set is tight"
            exp = RefAABB.of_points(pts)
            self.laws += 1
            if not ref.same_values(exp.mini, exp.maxi):
                self._bad_value("of-points-tight", "of_points", "AABB.of_points", "n=%d" % min(len(pts), 2),
                                "of_points(%r) = %r, tight box is %r" % (pts, ref, exp))
        return self._done(out)

    def _op_box_unit(self, ev):
        out = self._call(ev, self.AABB.unit_cube, ev["dim"], ev["centered"])
        self._new_box(ev, out, ("own",))
        return self._done(out)

    def _op_box_inf(self, ev):
        out = self._call(ev, self.AABB.infinite, ev["dim"])
        self._new_box(ev, out, ("own",))
        return self._done(out)

    def _op_box_mesh(self, ev):
        pad = ev.get("pad", 0.0)
        out = self._call(ev, self.AABB.of_mesh, self.mesh) if pad == 0.0 else self._call(ev, self.AABB.of_mesh, self.mesh, pad)
        ref = self._new_box(ev, out, ("own",), "of-points-tight")
        self.probes["mesh_box"] += 1
        if ref is not None and pad == 0.0:
            exp = RefAABB.of_points(self.mesh_snap)
            self.laws += 1
            if not ref.same_values(exp.mini, exp.maxi):
                self._bad_value("of-points-tight", "of_mesh", "AABB.of_mesh", "", "of_mesh = %r, tight box of the vertices is %r" % (ref, exp))
        return self._done(out)

    def _op_box_from(self, ev):
        k = ev["b"][0]
        b = self.box[k]
        out = self._call(ev, self.AABB, b.mini, b.maxi, boxes=(k,))
        ref = self._new_box(ev, out, ("from", k))
        if ref is not None and not ref.same_values(self.ref[k].mini, self.ref[k].maxi):
            self._bad_value("construct", "box_from", "AABB", "", "AABB(b.mini, b.maxi) = %r, b = %r" % (ref, self.ref[k]))
        return self._done(out)

    # ------------------------------------------------------------------------------------------
    # box operations
    # ------------------------------------------------------------------------------------------
    def _op_pad(self, ev):
        k = ev["b"][0]
        arrs = tuple(ev.get("a", ()))
        if arrs:
            arg = self.arr[arrs[0]]
        elif "pl" in ev:
            arg = list(ev["pl"])
        else:
            arg = float(ev["pf"])
        if any(k2 != k and self.roots[k2] & self.roots[k] for k2 in self.box):
            self.probes["pad_aliased_box"] += 1
        # pad() is documented in place: the padded box is the one exemption of (S2); no law is stated for its value
        out = self._call(ev, self.box[k].pad, arg, arrs=arrs, boxes=(k,), target_box=k)
        return self._done(out, extra=[self.ref[k].mini, self.ref[k].maxi] if self._deferred is None else None)

    def _binop(self, ev, name):
        k1, k2 = ev["b"]
        b1, b2 = self.box[k1], self.box[k2]
        if name == "do_intersect":
            fn, args = self.AABB.do_intersect, (b1, b2)
        elif ev.get("how") == "operator":
            fn, args = (b1.__or__ if name == "union" else b1.__and__), (b2,)
        elif ev.get("how") == "augmented":
            # `acc |= b` / `acc &= b` as a caller writes them: a NEW box unless the class defines in-place operators - and then the statement
            # still holds: no box other than the documented target, and no caller array, may change (b1 itself is not a documented target)
            import operator
            fn, args = (operator.ior if name == "union" else operator.iand), (b1, b2)
        else:
            fn, args = (self.AABB.union if name == "union" else self.AABB.intersection), (b1, b2)
        return self._call(ev, fn, *args, boxes=(k1, k2))

    def _opclass(self, r1, r2):
        if r1.inverted() or r2.inverted():
            return "operand=empty"
        if not (r1.finite() and r2.finite()):
            return "operand=infinite"
        if r1.is_point() or r2.is_point():
            return "operand=point"
        return "operands=regular"

    def _op_union(self, ev):
        out = self._binop(ev, "union")
        if ev.get("bad"):
            return self._done(out)
        r1, r2 = self.ref[ev["b"][0]], self.ref[ev["b"][1]]
        ref = self._new_box(ev, out, ("own",), "union-contains-operands")
        # "the union contains both operands"  (an operand that is empty as a point set imposes nothing)
        self.laws += 1
        for r in (r1, r2):
            if r.nonempty() and not ref.contains_box(r):
                self._bad_value("union-contains-operands", "union", "AABB.union", self._opclass(r1, r2),
                                "union(%r, %r) = %r does not contain %r" % (r1, r2, ref, r))
        return self._done(out)

    def _op_inter(self, ev):
        out = self._binop(ev, "inter")
        if ev.get("bad"):
            return self._done(out)
        r1, r2 = self.ref[ev["b"][0]], self.ref[ev["b"][1]]
        ref = self._new_box(ev, out, ("own",), "intersection-is-overlap")
        exp = RefAABB.overlap(r1, r2)
        self.laws += 1
        if exp.inverted():
            self.probes["empty_intersection"] += 1
        if r1.inverted() or r2.inverted():
            if not ref.inverted():
                self._bad_value("intersection-is-overlap", "intersection", "AABB.intersection", "operand=empty",
                                "intersection(%r, %r) = %r is not empty although an operand is" % (r1, r2, ref))
        elif not ref.same_values(exp.mini, exp.maxi):
            # "the intersection is their componentwise overlap"
            self._bad_value("intersection-is-overlap", "intersection", "AABB.intersection", self._opclass(r1, r2),
                            "intersection(%r, %r) = %r, componentwise overlap is %r" % (r1, r2, ref, exp))
        return self._done(out)

    def _op_do_intersect(self, ev):
        out = self._binop(ev, "do_intersect")
        if ev.get("bad"):
            return self._done(out)
        r1, r2 = self.ref[ev["b"][0]], self.ref[ev["b"][1]]
        ac = self._opclass(r1, r2)
        if not out.ok:
            self.exc_violation("intersect-iff-overlap-nonnegative", "do_intersect", out, ac)
        # "two boxes intersect exactly when that overlap has non-negative extent in every dimension"
        exp = RefAABB.overlap(r1, r2).nonempty()
        self.laws += 1
        if exp is False:
            self.probes["empty_intersection"] += 1
        if bool(out.value) != exp:
            self._bad_value("intersect-iff-overlap-nonnegative", "do_intersect", "AABB.do_intersect", ac,
                            "do_intersect(%r, %r) = %r but the overlap %r has %s extent" % (
                                r1, r2, bool(out.value), RefAABB.overlap(r1, r2), "non-negative" if exp else "a negative"))
        return self._done(out)

    def _point(self, ev):
        i = ev["a"][0]
        return i, (self.V(i) if ev.get("wrap") == "vec" else self.arr[i])

    def _pt_class(self, ref, p):
        if ref.inverted():
            return "box=empty"
        if not ref.finite():
            return "box=infinite"
        pre = "box=point" if ref.is_point() else "box=regular"
        if ref.strictly_inside(p):
            self.probes["contained_point"] += 1
            return pre + "/inside"
        if ref.outside_closed(p):
            self.probes["outside_point"] += 1
            return pre + "/outside"
        self.probes["boundary_point"] += 1
        return pre + "/boundary"

    def _dist_law(self, ev, k, i, parg, which, clause, op):
        """B.distance(p, which) against the model: 'the point-box distance in each norm'"""
        ref, p = self.ref[k], self.vals(i)
        out = self._call(ev, self.box[k].distance, parg, which, arrs=(i,), boxes=(k,))
        ac = which
        if not out.ok:
            self.exc_violation(clause, op, out, ac, "distance(%r, %r) on box %r" % (p, which, ref))
        if not is_num(out.value):
            self._bad_value(clause, op, "AABB.distance", ac, "distance(%r, %r) on %r = %r" % (p, which, ref, out.value))
        d = float(out.value)
        exp = ref.distance(p, which)
        tol = REL * max(ref.magnitude(p), exp)
        if abs(d - exp) > tol:
            self._bad_value(clause, op, "AABB.distance", ac, "distance(%r, %r) on %r = %r, point-box distance is %r" % (p, which, ref, d, exp))
        return out, d

    def _op_contains(self, ev):
        k = ev["b"][0]
        i, parg = self._point(ev)
        out = self._call(ev, self.box[k].contains_point, parg, arrs=(i,), boxes=(k,))
        if ev.get("bad"):
            return self._done(out)
        ref, p = self.ref[k], self.vals(i)
        ac = self._pt_class(ref, p)
        if not out.ok:
            self.exc_violation("contains-point", "contains_point", out, ac)
        got = bool(out.value)
        self.laws += 1
        # off the boundary the answer is fixed by the meaning of 'contained'; on the boundary either answer is accepted
        if ref.strictly_inside(p) and not got:
            self._bad_value("contains-point", "contains_point", "AABB.contains_point", ac, "%r strictly inside %r reported not contained" % (p, ref))
        if ref.outside_closed(p) and got:
            self._bad_value("contains-point", "contains_point", "AABB.contains_point", ac, "%r outside the closed box %r reported contained" % (p, ref))
        if got:
            # "a contained point is at distance zero"
            self._settle()
            for w in NORMS:
                o2 = self._call(ev, self.box[k].distance, parg, w, arrs=(i,), boxes=(k,))
                if not o2.ok:
                    self.exc_violation("contained-distance-zero", "contains_point", o2, w)
                if not is_num(o2.value) or abs(float(o2.value)) > 1e-12 * ref.magnitude(p):
                    self._bad_value("contained-distance-zero", "contains_point", "AABB.distance", w,
                                    "%r is reported contained in %r but distance(%s) = %r" % (p, ref, w, o2.value))
                self._settle()
        return self._done(out)

    def _op_project(self, ev):
        k = ev["b"][0]
        i, parg = self._point(ev)
        out = self._call(ev, self.box[k].project, parg, arrs=(i,), boxes=(k,))
        ref, p = self.ref[k], self.vals(i)
        if ev.get("bad") or not ref.nonempty():
            return self._done(out)  # an empty box has no closest point: side effects only
        ac = self._pt_class(ref, p)
        if not out.ok:
            self.exc_violation("projection-in-closed-box", "project", out, ac)
        q = as_floats(out.value, ref.dim)
        if q is None:
            self._bad_value("projection-in-closed-box", "project", "AABB.project", ac, "project(%r) on %r = %r" % (p, ref, out.value))
        self.laws += 1
        m = ref.magnitude(p)
        # "the projection of a point lies in the closed box"
        if not ref.in_closed(q, 1e-12 * m):
            self._bad_value("projection-in-closed-box", "project", "AABB.project", ac, "project(%r) = %r is outside the closed box %r" % (p, q, ref))
        self._settle()
        # "... and realises the point-box distance in each norm"
        for w in NORMS:
            _, d = self._dist_law(ev, k, i, parg, w, "projection-realises-distance", "project")
            dq = vec_norm([x - y for x, y in zip(p, q)], w)
            if abs(dq - d) > REL * max(m, d):
                self._bad_value("projection-realises-distance", "project", "AABB.project", ac + "/" + w,
                                "|p - project(p)|_%s = %r but distance(p, %s) = %r (p=%r, projection=%r, box %r)" % (w, dq, w, d, p, q, ref))
            self._settle()
        return self._done(out)

    def _op_bdistance(self, ev):
        k = ev["b"][0]
        i, parg = self._point(ev)
        ref = self.ref[k]
        if ev.get("bad") or not ref.nonempty():
            out = self._call(ev, self.box[k].distance, parg, ev["which"], arrs=(i,), boxes=(k,))
            return self._done(out)
        self._pt_class(ref, self.vals(i))
        self.laws += 1
        out, _ = self._dist_law(ev, k, i, parg, ev["which"], "point-box-distance", "distance")
        return self._done(out)

    def _op_is_empty(self, ev):
        k = ev["b"][0]
        out = self._call(ev, self.box[k].is_empty, boxes=(k,))
        return self._done(out)

    def _op_access(self, ev):
        k = ev["b"][0]
        b = self.box[k]
        what = ev["what"]
        out = self._call(ev, lambda: getattr(b, what), boxes=(k,))
        return self._done(out)

    # ------------------------------------------------------------------------------------------
    # primitives: exact-arithmetic laws
    # ------------------------------------------------------------------------------------------
    def W(self, ev, i):
        return self.arr[i] if ev.get("wrap") == "nd" else self.V(i)

    def _need_ok(self, out, clause, op, argclass, what=""):
        """the inputs are valid and non-degenerate for a function with a stated law: an exception is a violation"""
        if not out.ok:
            self.exc_violation(clause, op, out, argclass, what)

    def _close(self, got, exact, scale, clause, op, site, argclass, what):
        """|got - exact| <= REL * scale, with got a library scalar and exact/scale Fractions"""
        if not is_num(got):
            self._bad_value(clause, op, site, argclass, "%s = %r (not a finite number)" % (what, got))
        if abs(Fraction(float(got)) - exact) > Fraction(REL) * scale:
            self._bad_value(clause, op, site, argclass, "%s = %r, exact value %r (rounding scale %r)" % (what, float(got), float(exact), float(scale)))

    def _op_cross(self, ev):
        i, j = ev["a"]
        out = self._call(ev, self.G.cross, self.V(i), self.V(j), arrs=(i, j))
        if ev.get("bad"):
            return self._done(out)
        ac = self.sc((i, j))
        self._need_ok(out, "cross-exact", "cross", ac)
        got = as_floats(out.value, 3)
        if got is None:
            self._bad_value("cross-exact", "cross", "geometry.cross", ac, "cross = %r" % (out.value,))
        a, b = self.X(i), self.X(j)
        # "cross/determinants against exact arithmetic"
        self.laws += 1
        for k, (e, s) in enumerate(zip(xcross(a, b), xcross_abs(a, b))):
            self._close(got[k], e, s, "cross-exact", "cross", "geometry.cross", ac, "cross(%r, %r)[%d]" % (self.vals(i), self.vals(j), k))
        if not any(xcross(a, b)):
            self.probes["parallel_vectors"] += 1
        return self._done(out)

    def _op_dot(self, ev):
        i, j = ev["a"]
        out = self._call(ev, self.G.dot, self.W(ev, i), self.W(ev, j), arrs=(i, j))
        if ev.get("bad"):
            return self._done(out)
        ac = self.sc((i, j))
        self._need_ok(out, "vector-definition", "dot", ac)
        a, b = self.X(i), self.X(j)
        self.laws += 1
        self._close(out.value, xdot(a, b), xabsdot(a, b), "vector-definition", "dot", "geometry.dot", ac, "dot(%r, %r)" % (self.vals(i), self.vals(j)))
        return self._done(out)

    def _norm_law(self, out, v, which, op, site, what):
        ac = which
        self._need_ok(out, "vector-definition", op, ac)
        if not is_num(out.value):
            self._bad_value("vector-definition", op, site, ac, "%s = %r" % (what, out.value))
        exp = vec_norm(v, which)
        self.laws += 1
        if abs(float(out.value) - exp) > REL * exp:
            self._bad_value("vector-definition", op, site, ac, "%s = %r, definition gives %r" % (what, float(out.value), exp))

    def _op_norm(self, ev):
        i = ev["a"][0]
        out = self._call(ev, self.G.norm, self.W(ev, i), ev["which"], arrs=(i,))
        if ev.get("bad"):
            return self._done(out)
        self._norm_law(out, self.vals(i), ev["which"], "norm", "geometry.norm", "norm(%r, %s)" % (self.vals(i), ev["which"]))
        return self._done(out)

    def _op_vnorm(self, ev):
        i = ev["a"][0]
        out = self._call(ev, self.V(i).norm, ev["which"], arrs=(i,))
        self._norm_law(out, self.vals(i), ev["which"], "vnorm", "Vec.norm", "Vec(%r).norm(%s)" % (self.vals(i), ev["which"]))
        return self._done(out)

    def _op_distance(self, ev):
        i, j = ev["a"]
        out = self._call(ev, self.G.distance, self.V(i), self.V(j), ev["which"], arrs=(i, j))
        ac = ev["which"]
        self._need_ok(out, "vector-definition", "distance", ac)
        if not is_num(out.value):
            self._bad_value("vector-definition", "distance", "geometry.distance", ac, "distance = %r" % (out.value,))
        diff = [float(x) for x in xsub(self.X(j), self.X(i))]
        exp = vec_norm(diff, ev["which"])
        self.laws += 1
        if abs(float(out.value) - exp) > REL * max(exp, self.mag((i, j))):
            self._bad_value("vector-definition", "distance", "geometry.distance", ac,
                            "distance(%r, %r, %s) = %r, definition gives %r" % (self.vals(i), self.vals(j), ev["which"], float(out.value), exp))
        return self._done(out)

    def _op_det2(self, ev):
        i, j = ev["a"]
        out = self._call(ev, self.G.det_2x2, self.W(ev, i), self.W(ev, j), arrs=(i, j))
        ac = self.sc((i, j))
        self._need_ok(out, "det-exact", "det_2x2", ac)
        a, b = self.X(i), self.X(j)
        self.laws += 1
        self._close(out.value, a[0] * b[1] - a[1] * b[0], abs(a[0] * b[1]) + abs(a[1] * b[0]), "det-exact", "det_2x2", "geometry.det_2x2", ac,
                    "det_2x2(%r, %r)" % (self.vals(i), self.vals(j)))
        return self._done(out)

    def _op_det2c(self, ev):
        za, zb = complex(*ev["za"]), complex(*ev["zb"])
        out = self._call(ev, self.G.det_2x2, za, zb)
        self._need_ok(out, "det-exact", "det_2x2", "complex")
        a, b = fx(ev["za"]), fx(ev["zb"])
        self.laws += 1
        self._close(out.value, a[0] * b[1] - a[1] * b[0], abs(a[0] * b[1]) + abs(a[1] * b[0]), "det-exact", "det_2x2", "geometry.det_2x2", "complex",
                    "det_2x2(%r, %r)" % (za, zb))
        return self._done(out)

    def _op_det3(self, ev):
        i, j, k = ev["a"]
        out = self._call(ev, self.G.det_3x3, self.W(ev, i), self.W(ev, j), self.W(ev, k), arrs=(i, j, k))
        ac = self.sc((i, j, k))
        self._need_ok(out, "det-exact", "det_3x3", ac)
        e, s = xdet3([self.X(i), self.X(j), self.X(k)])
        self.laws += 1
        self._close(out.value, e, s, "det-exact", "det_3x3", "geometry.det_3x3", ac, "det_3x3(%r, %r, %r)" % (self.vals(i), self.vals(j), self.vals(k)))
        return self._done(out)

    def _op_det3m(self, ev):
        i = ev["a"][0]
        out = self._call(ev, self.G.det_3x3, self.arr[i], arrs=(i,))
        if ev.get("bad"):
            return self._done(out)
        ac = self.sc((i,)) + "/matrix"
        self._need_ok(out, "det-exact", "det_3x3", ac)
        e, s = xdet3([fx(row) for row in self.vals(i)])
        self.laws += 1
        self._close(out.value, e, s, "det-exact", "det_3x3", "geometry.det_3x3", ac, "det_3x3(%r)" % (self.vals(i),))
        return self._done(out)

    def _area_law(self, ev, fn, name, dim):
        i, j, k = ev["a"]
        out = self._call(ev, fn, self.V(i), self.V(j), self.V(k), arrs=(i, j, k))
        ac = self.sc((i, j, k))
        self._need_ok(out, "vector-definition", name, ac)
        A, B, C = self.X(i), self.X(j), self.X(k)
        u, v = xsub(B, A), xsub(C, A)
        if dim == 3:
            cr = xcross(u, v)
            exp = fsqrt(xdot(cr, cr)) / 2
        else:
            exp = abs(float(u[0] * v[1] - u[1] * v[0])) / 2
        m = self.mag((i, j, k))
        self.laws += 1
        if not is_num(out.value) or abs(float(out.value) - exp) > REL * max(m * m, exp):
            self._bad_value("vector-definition", name, "geometry." + name, ac, "%s(%r, %r, %r) = %r, |cross|/2 resp. |det|/2 gives %r" % (
                name, self.vals(i), self.vals(j), self.vals(k), out.value, exp))
        if exp == 0:
            self.probes["degenerate_triangle"] += 1
        return self._done(out)

    def _op_triangle_area(self, ev):
        return self._area_law(ev, self.G.triangle_area, "triangle_area", 3)

    def _op_triangle_area_2D(self, ev):
        return self._area_law(ev, self.G.triangle_area_2D, "triangle_area_2D", 2)

    # ------------------------------------------------------------------------------------------
    # primitives: angles
    # ------------------------------------------------------------------------------------------
    def _angle_range_sym(self, ev, fn, args1, args2, arrs, clause, name):
        """'three-point angles lie in [0,pi] and are symmetric' (all finite inputs, degenerate ones included)"""
        out = self._call(ev, fn, *args1, arrs=arrs)
        ac = self.sc(arrs)
        self._need_ok(out, clause, name, ac)
        self.laws += 1
        if not is_num(out.value) or not (-1e-12 <= float(out.value) <= PI + 1e-12):
            self._bad_value(clause, name, "geometry." + name, ac, "%s = %r is not in [0, pi]" % (name, out.value))
        self._settle()
        o2 = self._call(ev, fn, *args2, arrs=arrs)
        self._need_ok(o2, clause, name, ac)
        if not is_num(o2.value) or abs(float(o2.value) - float(out.value)) > REL:
            self._bad_value(clause, name, "geometry." + name, ac, "%s = %r but with the outer arguments swapped %r" % (name, out.value, o2.value))
        return out

    def _op_angle_3pts(self, ev):
        i, j, k = ev["a"]
        out = self._angle_range_sym(ev, self.G.angle_3pts, (self.V(i), self.V(j), self.V(k)), (self.V(k), self.V(j), self.V(i)), (i, j, k),
                                    "angle3-range-symmetric", "angle_3pts")
        return self._done(out)

    def _op_angle_2vec3D(self, ev):
        i, j = ev["a"]
        out = self._angle_range_sym(ev, self.G.angle_2vec3D, (self.V(i), self.V(j)), (self.V(j), self.V(i)), (i, j),
                                    "unsigned-angle-range-symmetric", "angle_2vec3D")
        return self._done(out)

    def _op_angle_2vec2D(self, ev):
        i, j = ev["a"]
        out = self._call(ev, self.G.angle_2vec2D, self.V(i), self.V(j), arrs=(i, j))
        ac = self.sc((i, j))
        self._need_ok(out, "signed-angle-antisymmetric", "angle_2vec2D", ac)
        self._settle()
        o2 = self._call(ev, self.G.angle_2vec2D, self.V(j), self.V(i), arrs=(i, j))
        self._need_ok(o2, "signed-angle-antisymmetric", "angle_2vec2D", ac)
        # "signed angles are antisymmetric"
        self.laws += 1
        if not is_num(out.value) or not is_num(o2.value) or abs(float(out.value) + float(o2.value)) > REL:
            self._bad_value("signed-angle-antisymmetric", "angle_2vec2D", "geometry.angle_2vec2D", ac,
                            "angle(V1,V2) = %r, angle(V2,V1) = %r" % (out.value, o2.value))
        return self._done(out)

    def _signed_nondeg(self, v1, v2, n):
        S = xcross(v1, v2)
        ss, sn = xdot(S, S), xdot(S, n)
        m2 = MARGIN * MARGIN
        return ss > 0 and ss >= m2 * xdot(v1, v1) * xdot(v2, v2) and sn * sn >= m2 * ss * xdot(n, n) and xdot(n, n) > 0

    def _signed_law(self, ev, fn, args1, args2, arrs, nondeg, name):
        out = self._call(ev, fn, *args1, arrs=arrs)
        if not nondeg:
            self.probes["parallel_vectors"] += 1
            return self._done(out)  # sign undefined (parallel vectors / normal in the plane): side effects only
        ac = self.sc(arrs)
        self._need_ok(out, "signed-angle-antisymmetric", name, ac)
        self._settle()
        o2 = self._call(ev, fn, *args2, arrs=arrs)
        self._need_ok(o2, "signed-angle-antisymmetric", name, ac)
        self.laws += 1
        if not is_num(out.value) or not is_num(o2.value) or abs(float(out.value) + float(o2.value)) > REL:
            self._bad_value("signed-angle-antisymmetric", name, "geometry." + name, ac,
                            "%s = %r, with the two directions swapped %r" % (name, out.value, o2.value))
        return self._done(out)

    def _op_signed_angle_2vec3D(self, ev):
        i, j, k = ev["a"]
        nd = self._signed_nondeg(self.X(i), self.X(j), self.X(k))
        return self._signed_law(ev, self.G.signed_angle_2vec3D, (self.V(i), self.V(j), self.V(k)), (self.V(j), self.V(i), self.V(k)),
                                (i, j, k), nd, "signed_angle_2vec3D")

    def _op_signed_angle_3pts(self, ev):
        i, j, k, n = ev["a"]
        A, B, C = self.X(i), self.X(j), self.X(k)
        nd = self._signed_nondeg(xsub(A, B), xsub(C, B), self.X(n))
        return self._signed_law(ev, self.G.signed_angle_3pts, (self.V(i), self.V(j), self.V(k), self.V(n)),
                                (self.V(k), self.V(j), self.V(i), self.V(n)), (i, j, k, n), nd, "signed_angle_3pts")

    def _op_cotan(self, ev):
        i, j, k = ev["a"]
        out = self._call(ev, self.G.cotan, self.V(i), self.V(j), self.V(k), arrs=(i, j, k))
        A, B, C = self.X(i), self.X(j), self.X(k)
        u, v = xsub(A, B), xsub(C, B)
        cr = xcross(u, v)
        s2, c, uu, vv = xdot(cr, cr), xdot(u, v), xdot(u, u), xdot(v, v)
        m2 = MARGIN * MARGIN
        M = Fraction(self.mag((i, j, k)))
        # degenerate (angle 0 / pi, or undefined) or ill-conditioned (a side shorter than 1e-3 of the coordinates, so that
        # forming B->A, B->C in float64 already loses the angle): side effects only
        # (the exact value is judged down to needle corners, |sin| >= 1e-7: the tolerance below grows like 1/sin^2, as the function's conditioning)
        if not (uu > 0 and vv > 0 and s2 >= Fraction(1, 10 ** 14) * uu * vv and min(uu, vv) >= m2 * M * M):
            self.probes["degenerate_triangle"] += 1
            return self._done(out)
        if s2 < m2 * uu * vv:
            self.probes["needle_corner"] += 1
        ac = self.sc((i, j, k))
        self._need_ok(out, "cotan-reciprocal-tangent", "cotan", ac)
        # "cotangent is the reciprocal tangent of the angle": exact cos/sin of the angle ABC ...
        exp = float(c) / fsqrt(s2)
        self.laws += 1
        # d(cot)/d(angle) = 1/sin^2; the angle itself carries the relative rounding of B->A, B->C: eps * |coords| / |side|
        cond = float(M) / fsqrt(min(uu, vv))
        sin2 = float(s2 / (uu * vv))
        if not is_num(out.value) or abs(float(out.value) - exp) > REL * (1 + abs(exp)) + 1e-14 * cond / sin2:
            self._bad_value("cotan-reciprocal-tangent", "cotan", "geometry.cotan", ac,
                            "cotan(%r, %r, %r) = %r, cos/sin of the angle is %r" % (self.vals(i), self.vals(j), self.vals(k), out.value, exp))
        # ... and against the library's own angle, where neither the tangent nor the cotangent is near a pole
        if c * c >= m2 * uu * vv and s2 >= m2 * uu * vv:
            self._settle()
            o2 = self._call(ev, self.G.angle_3pts, self.V(i), self.V(j), self.V(k), arrs=(i, j, k))
            self._need_ok(o2, "cotan-reciprocal-tangent", "cotan", ac, "angle_3pts on the same points")
            if not is_num(o2.value) or abs(float(out.value) * math.tan(float(o2.value)) - 1.0) > 1e-8:
                self._bad_value("cotan-reciprocal-tangent", "cotan", "geometry.cotan*tan(angle_3pts)", ac,
                                "cotan = %r, angle_3pts = %r, product cotan*tan(angle) = %r" % (
                                    out.value, o2.value, float(out.value) * math.tan(float(o2.value)) if is_num(o2.value) else None))
        return self._done(out)

    def _op_cotan_far(self, ev):
        """cotan on literal points of extreme magnitude (the caller's own fresh arrays, outside the pool)"""
        own = [np.array(p, dtype=np.float64) for p in ev["pts"]]
        before = [a.tobytes() for a in own]
        out = self._call(ev, self.G.cotan, self.Vec(own[0]), self.Vec(own[1]), self.Vec(own[2]))
        self.probes["extreme_corner"] += 1
        if [a.tobytes() for a in own] != before:
            self.violation("no-side-effects", "cotan_far", "argument_changed", "geometry.cotan", "extreme", "cotan changed one of its argument arrays")
        A, B, C = (fx(p) for p in ev["pts"])
        u, v = xsub(A, B), xsub(C, B)
        cr = xcross(u, v)
        s2, c, uu, vv = xdot(cr, cr), xdot(u, v), xdot(u, u), xdot(v, v)
        M2 = max(abs(x) for p in (A, B, C) for x in p) ** 2
        # judged only where the corner is well shaped in exact arithmetic: sine >= 0.05, both sides longer than 1/100 of the coordinates
        if not (uu > 0 and vv > 0 and s2 * 400 >= uu * vv and min(uu, vv) * 10000 >= M2):
            return self._done(out)
        self._need_ok(out, "cotan-reciprocal-tangent", "cotan", "extreme")
        exp = math.sqrt(float(c * c / s2)) * (1 if c > 0 else (-1 if c < 0 else 0))
        self.laws += 1
        if not is_num(out.value) or abs(float(out.value) - exp) > 1e-7 * (1 + abs(exp)):
            self._bad_value("cotan-reciprocal-tangent", "cotan", "geometry.cotan", "extreme",
                            "cotan(%r, %r, %r) = %r, cos/sin of the angle is %r" % (ev["pts"][0], ev["pts"][1], ev["pts"][2], out.value, exp))
        return self._done(out)

    def _op_circumcenter(self, ev):
        i, j, k = ev["a"]
        out = self._call(ev, self.G.circumcenter, self.V(i), self.V(j), self.V(k), arrs=(i, j, k))
        P = [self.X(i), self.X(j), self.X(k)]
        e = [xsub(P[1], P[0]), xsub(P[2], P[1]), xsub(P[0], P[2])]
        cr = xcross(e[0], xsub(P[2], P[0]))
        a2 = xdot(cr, cr)  # (twice the area)^2
        l2 = [xdot(x, x) for x in e]
        lim = Fraction(1, 400)  # sin >= 0.05 at every vertex
        M = Fraction(self.mag((i, j, k)))
        if not (a2 > 0 and a2 >= lim * l2[0] * l2[1] and a2 >= lim * l2[1] * l2[2] and a2 >= lim * l2[2] * l2[0]
                and min(l2) >= Fraction(1, 10 ** 6) * M * M):
            self.probes["degenerate_triangle"] += 1
            return self._done(out)  # flat / needle triangle, or tiny relative to its coordinates (ill-conditioned): side effects only
        area2 = fsqrt(a2)
        ac = "2*area<1e-11" if area2 < 1e-11 else ("2*area>1e11" if area2 > 1e11 else "regular")
        self._need_ok(out, "circumcenter-equidistant", "circumcenter", ac)
        O = as_floats(out.value, 3)
        if O is None:
            self._bad_value("circumcenter-equidistant", "circumcenter", "geometry.circumcenter", ac, "circumcenter = %r" % (out.value,))
        # "circumcentres are equidistant"
        d = [vec_norm([o - float(x) for o, x in zip(O, p)]) for p in P]
        self.laws += 1
        if max(d) - min(d) > 1e-7 * (max(d) + self.mag((i, j, k))):
            self._bad_value("circumcenter-equidistant", "circumcenter", "geometry.circumcenter", ac,
                            "circumcenter(%r, %r, %r) = %r is at distances %r from the three points" % (self.vals(i), self.vals(j), self.vals(k), O, d))
        return self._done(out)

    # ------------------------------------------------------------------------------------------
    # primitives without a named law: executed, logged, judged by the side-effect invariants only
    # ------------------------------------------------------------------------------------------
    def _op_face_basis(self, ev):
        i, j, k = ev["a"]
        if ev.get("form") == "list":
            out = self._call(ev, self.G.face_basis, [self.V(i), self.V(j), self.V(k)], arrs=(i, j, k))
        else:
            out = self._call(ev, self.G.face_basis, self.V(i), self.V(j), self.V(k), arrs=(i, j, k))
        return self._done(out)

    def _op_quad_area(self, ev):
        i, j, k, l = ev["a"]
        out = self._call(ev, self.G.quad_area, self.V(i), self.V(j), self.V(k), self.V(l), arrs=(i, j, k, l))
        return self._done(out)

    def _op_lines2D(self, ev):
        p1, d1, p2, d2 = ev["a"]
        a, b = self.X(d1), self.X(d2)
        if a[0] * b[1] - a[1] * b[0] == 0:
            self.probes["parallel_lines"] += 1
        out = self._call(ev, self.G.intersect_2lines2D, self.V(p1), self.V(d1), self.V(p2), self.V(d2), arrs=(p1, d1, p2, d2))
        return self._done(out)

    def _op_project_to_plane(self, ev):
        i, j, k = ev["a"]
        out = self._call(ev, self.G.project_to_plane, self.V(i), self.V(j), self.V(k), arrs=(i, j, k))
        return self._done(out)

    def _op_dist_segment2D(self, ev):
        i, j, k = ev["a"]
        out = self._call(ev, self.G.distance_to_segment2D, self.V(i), self.V(j), self.V(k), arrs=(i, j, k))
        return self._done(out)

    def _op_axis_rot_from_z(self, ev):
        i = ev["a"][0]
        out = self._call(ev, self.G.axis_rot_from_z, self.V(i), arrs=(i,))
        return self._done(out)

    # ------------------------------------------------------------------------------------------
    # rotations: "rotations are isometries fixing their axis and composing additively"
    # ------------------------------------------------------------------------------------------
    def _rot_laws(self, ev, rot, i, i2, n, name, site, extra_arrs=()):
        """rot(arg, angle) -> Outcome.  i: rotated array, i2: a second rotated array (pairwise distances)."""
        a1, a2 = float(ev["ang"]), float(ev["ang2"])
        ac = self.sc((i, i2) + tuple(extra_arrs))
        u, w = self.vals(i), self.vals(i2)
        nu = vec_norm(u)
        o1 = rot(self.V(i), a1)
        self._need_ok(o1, "rotation-isometry", name, ac)
        r1 = as_floats(o1.value, n)
        if r1 is None:
            self._bad_value("rotation-isometry", name, site, ac, "%s(%r, %r) = %r" % (name, u, a1, o1.value))
        self.laws += 1
        if abs(vec_norm(r1) - nu) > REL * nu:
            self._bad_value("rotation-isometry", name, site, ac, "|%s(%r, %r)| = %r but |v| = %r" % (name, u, a1, vec_norm(r1), nu))
        self._settle()
        if i2 != i:
            o2 = rot(self.V(i2), a1)
            self._need_ok(o2, "rotation-isometry", name, ac)
            r2 = as_floats(o2.value, n)
            if r2 is None:
                self._bad_value("rotation-isometry", name, site, ac, "%s(%r, %r) = %r" % (name, w, a1, o2.value))
            d0 = vec_norm([float(x - y) for x, y in zip(fx(u), fx(w))])
            d1 = vec_norm([x - y for x, y in zip(r1, r2)])
            if abs(d1 - d0) > REL * (nu + vec_norm(w)):
                self._bad_value("rotation-isometry", name, site, ac,
                                "distance between %r and %r is %r, between their images by angle %r it is %r" % (u, w, d0, a1, d1))
            self._settle()
        # composing additively: rotating by a1 then a2 is rotating by a1 + a2
        o3 = rot(o1.value, a2)
        self._need_ok(o3, "rotation-additive", name, ac)
        self._settle()
        o4 = rot(self.V(i), a1 + a2)
        self._need_ok(o4, "rotation-additive", name, ac)
        r3, r4 = as_floats(o3.value, n), as_floats(o4.value, n)
        if r3 is None or r4 is None:
            self._bad_value("rotation-additive", name, site, ac, "%s results %r / %r" % (name, o3.value, o4.value))
        if vec_norm([x - y for x, y in zip(r3, r4)]) > REL * nu * (1 + abs(a1) + abs(a2)):
            self._bad_value("rotation-additive", name, site, ac,
                            "%s(%s(v, %r), %r) = %r but %s(v, %r) = %r  (v = %r)" % (name, name, a1, a2, r3, name, a1 + a2, r4, u))
        return o1

    def _int_vector_law(self, ev, rot, n, name, site):
        """rotation of an integer-typed vector: same isometry (the statement quantifies over all finite inputs, whatever their dtype)"""
        iv = ev.get("ivec")
        if not iv:
            return
        self._settle()
        self.probes["integer_vector_rotated"] += 1
        a1 = float(ev["ang"])
        nu = vec_norm([float(x) for x in iv])
        for form, arg in (("vec", self.Vec(np.array(iv, dtype=np.int64))), ("list", list(iv))):
            o = rot(arg, a1)
            self._need_ok(o, "rotation-isometry", name, "int/" + form)
            r1 = as_floats(o.value, n)
            if r1 is None or abs(vec_norm(r1) - nu) > REL * nu:
                self._bad_value("rotation-isometry", name, site, "int/" + form,
                                "%s(%r [integer %s], %r) = %r: norm %r, but |v| = %r" % (name, iv, form, a1, o.value, None if r1 is None else vec_norm(r1), nu))
            self._settle()

    def _op_rotate_2d(self, ev):
        i, i2 = ev["a"]
        rot = lambda v, a: self._call(ev, self.G.rotate_2d, v, a, arrs=(i, i2))
        out = self._rot_laws(ev, rot, i, i2, 2, "rotate_2d", "geometry.rotate_2d")
        self._int_vector_law(ev, rot, 2, "rotate_2d", "geometry.rotate_2d")
        return self._done(out)

    def _op_rotate_axis(self, ev):
        i, ax, i2 = ev["a"]
        if not self.arr[ax].any():
            out = self._call(ev, self.G.rotate_around_axis, self.V(i), self.V(ax), float(ev["ang"]), arrs=(i, ax))
            return self._done(out)  # no axis: side effects only
        n2 = float(np.dot(self.arr[ax], self.arr[ax]))
        if n2 != 1.0 and abs(n2 - 1.0) < 1e-5:
            self.probes["near_unit_axis"] += 1
        rot = lambda v, a: self._call(ev, self.G.rotate_around_axis, v, self.V(ax), a, arrs=(i, ax, i2))
        out = self._rot_laws(ev, rot, i, i2, 3, "rotate_around_axis", "geometry.rotate_around_axis", (ax,))
        self._settle()
        # "fixing their axis"
        a1 = float(ev["ang"])
        o5 = rot(self.V(ax), a1)
        ac = self.sc((ax,))
        self._need_ok(o5, "rotation-fixes-axis", "rotate_around_axis", ac)
        r5 = as_floats(o5.value, 3)
        axv = self.vals(ax)
        if r5 is None or vec_norm([x - y for x, y in zip(r5, axv)]) > REL * vec_norm(axv):
            self._bad_value("rotation-fixes-axis", "rotate_around_axis", "geometry.rotate_around_axis", ac,
                            "rotating the axis %r about itself by %r gives %r" % (axv, a1, o5.value))
        self._int_vector_law(ev, rot, 3, "rotate_around_axis", "geometry.rotate_around_axis")
        return self._done(out)

    # ------------------------------------------------------------------------------------------
    # utils.maths
    # ------------------------------------------------------------------------------------------
    def _op_roots(self, ev):
        z = complex(*ev["z"])
        n = ev["n"]
        out = self._call(ev, self.maths.roots, z, n, ev["normalize"])
        if ev.get("twice") and out.ok and isinstance(out.value, list) and out.value:
            # the caller edits the list it was handed (its own data now), then asks again with equal arguments: the second answer is judged
            self._settle()
            out.value.pop()
            out.value.reverse()
            self.probes["roots_asked_again"] += 1
            out = self._call(ev, self.maths.roots, z, n, ev["normalize"])
        if ev.get("bad") or z == 0 or not (1 <= n <= 8):
            return self._done(out)  # the unit input does not exist for 0; n = 0 has no root
        ac = "normalize=%s" % bool(ev["normalize"])
        self._need_ok(out, "roots-power-gives-input", "roots", ac)
        rs = out.value
        if not isinstance(rs, (list, tuple)):
            self._bad_value("roots-power-gives-input", "roots", "maths.roots", ac, "roots = %r" % (rs,))
        # "n-th roots raised to n give back the unit input"
        target = z / abs(z) if ev["normalize"] else z
        self.laws += 1
        if len(rs) != n:
            self._bad_value("roots-power-gives-input", "roots", "maths.roots", ac, "roots(%r, %d) lists %d values" % (z, n, len(rs)))
        for rt in rs:
            if not isinstance(rt, complex) or not (math.isfinite(rt.real) and math.isfinite(rt.imag)) or \
                    abs(rt ** n - target) > REL * n * abs(target):
                self._bad_value("roots-power-gives-input", "roots", "maths.roots", ac,
                                "roots(%r, %d, normalize=%r) contains %r whose %d-th power is %r, expected %r" % (
                                    z, n, ev["normalize"], rt, n, rt ** n if isinstance(rt, complex) else None, target))
        return self._done(out, extra=len(rs))

    def _reduction_law(self, out, raw, scale, name, what):
        """'angle reduction is congruent modulo 2*pi and lands in [-pi, pi]'"""
        self._need_ok(out, "angle-reduction", name, "")
        if not is_num(out.value):
            self._bad_value("angle-reduction", name, "maths." + name, "", "%s = %r" % (what, out.value))
        rr = float(out.value)
        self.laws += 1
        if not (-PI - 1e-12 <= rr <= PI + 1e-12):
            self._bad_value("angle-reduction", name, "maths." + name, "range", "%s = %r is outside [-pi, pi]" % (what, rr))
        d = Fraction(rr) - raw
        k = round(d / TWO_PI_F)
        resid = abs(d - k * TWO_PI_F)
        if resid > Fraction(REL) * Fraction(max(1.0, scale)):
            self._bad_value("angle-reduction", name, "maths." + name, "congruence",
                            "%s = %r differs from the input by %r modulo 2*pi" % (what, rr, float(resid)))

    def _op_angle_diff(self, ev):
        x, y = float(ev["x"]), float(ev["y"])
        args = (np.float64(x), np.float64(y)) if ev.get("np") else (x, y)
        out = self._call(ev, self.maths.angle_diff, *args)
        self._reduction_law(out, Fraction(x) - Fraction(y), max(abs(x), abs(y)), "angle_diff", "angle_diff(%r, %r)" % (x, y))
        return self._done(out)

    def _op_principal_angle(self, ev):
        x = float(ev["x"])
        out = self._call(ev, self.maths.principal_angle, np.float64(x) if ev.get("np") else x)
        self._reduction_law(out, Fraction(x), abs(x), "principal_angle", "principal_angle(%r)" % (x,))
        return self._done(out)

    # ------------------------------------------------------------------------------------------
    # Vec.normalized / Vec.normalize
    # ------------------------------------------------------------------------------------------
    def _unit_law(self, got, v, which, name, ac):
        nv = vec_norm(v, which)
        if got is None or abs(vec_norm(got, which) - 1.0) > REL or any(abs(g * nv - x) > REL * nv for g, x in zip(got, v)):
            self._bad_value("vector-definition", name, "Vec." + name, ac, "%s of %r in norm %s gives %r" % (name, v, which, got))

    def _op_normalized(self, ev):
        i = ev["a"][0]
        which = ev["which"]
        out = self._call(ev, self.Vec.normalized, self.W(ev, i), which, arrs=(i,))
        v = self.vals(i)
        if not self.arr[i].any():
            return self._done(out)  # zero vector: no unit vector exists; side effects only
        ac = which
        self._need_ok(out, "vector-definition", "normalized", ac)
        self.laws += 1
        self._unit_law(as_floats(out.value, len(v)), v, which, "normalized", ac)
        return self._done(out)

    def _op_normalize(self, ev):
        i = ev["a"][0]
        which = ev["which"]
        v = self.vals(i)
        if i in self.wrapped or not self.arr[i].any():
            # a box is built on this array (or it is the zero vector): the in-place method is run on a private copy
            tmp = self.Vec(np.array(v, dtype=np.float64))
            out = self._call(ev, tmp.normalize, which, arrs=())
            return self._done(out)
        self.probes["inplace_normalize"] += 1
        # documented in place: the viewed caller array is the ONE array this call may change
        out = self._call(ev, self.V(i).normalize, which, arrs=(i,), target_arr=i)
        self._need_ok(out, "vector-definition", "normalize", which)
        self.laws += 1
        self._unit_law(as_floats(self.arr[i], len(v)), v, which, "normalize", which)
        return self._done(out, extra=self.vals(i))


SIM = C12
