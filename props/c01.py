"""C01 - surface connectivity answers agree with the face list, whatever the query order.

World: ONE generated oriented manifold polygon surface shared by 3-6 logical clients (ring reader,
corner walker, edge/face lookup, border classifier, background).  A seeded scheduler interleaves their
queries, so every lazy cache is first-touched in every order.  Fault (odd seeds): cache_drop - the public
cache-reset methods are called between two queries of other clients.
Oracles: RefSurface per step; the same queries re-issued on a fresh instance in an independently drawn
order; a sample of the queries issued alone on a fresh instance (the 'freshly built mesh' sentence)."""
import numpy as np
from sim.engine import Sim, call, canon, Violation, ViolationFound
from sim.rng import Rng, h64
from models.ref_surface import RefSurface, cyclic_equal
from models import surfgen

# ---------------------------------------------------------------------------------------------
# query table: name -> (client, call(mesh, conn, *args), expected(ref, sim, *args), comparison mode)
# modes: exact | set | ring (rotational order per Appendix A of DESIGN.md) | anyof
# ---------------------------------------------------------------------------------------------


def _ring_expected(kind):
    def f(ref, sim, v):
        border, ring = ref.ring(v)
        if kind == "faces":
            seq = [t[0] for t in ring]
        elif kind == "corners":
            seq = [ref.vertex_to_corner_in_face(v, t[0]) for t in ring]
        else:
            seq = ([ring[0][1]] if border else []) + [t[2] for t in ring]
            if kind == "edges":
                seq = [ref.edge_id(v, u) for u in seq]
        return (border, seq)
    return f


def _opp_face_inds(ref, sim, u, v, F):
    f1, u1, v1 = ref.direct_face_inds(u, v)
    f2, v2, u2 = ref.direct_face_inds(v, u)
    if f1 is not None and f1 == F:
        return [f2, u2, v2]
    if f2 is not None and f2 == F:
        return [f1, u1, v1]
    return [None, None, None]


def _common_edge(ref, sim, f1, f2):
    s = ref.shared_edges(f1, f2)
    return [list(e) for e in sorted(s)] if s else [[None, None]]


Q = {
    # ring reader
    "v2v": ("ring", lambda m, c, v: c.vertex_to_vertices(v), _ring_expected("vertices"), "ring"),
    "v2f": ("ring", lambda m, c, v: c.vertex_to_faces(v), _ring_expected("faces"), "ring"),
    "v2c": ("ring", lambda m, c, v: c.vertex_to_corners(v), _ring_expected("corners"), "ring"),
    "v2e": ("ring", lambda m, c, v: c.vertex_to_edges(v), _ring_expected("edges"), "ring"),
    # corner walker
    "next": ("corner", lambda m, c, x: c.next_corner(x), lambda r, s, x: r.next_corner(x), "exact"),
    "prev": ("corner", lambda m, c, x: c.previous_corner(x), lambda r, s, x: r.previous_corner(x), "exact"),
    "opp": ("corner", lambda m, c, x: c.opposite_corner(x), lambda r, s, x: r.opposite_corner(x), "exact"),
    "c2he": ("corner", lambda m, c, x: c.corner_to_half_edge(x), lambda r, s, x: list(r.corner_to_half_edge(x)), "exact"),
    "he2c": ("corner", lambda m, c, u, v: c.half_edge_to_corner(u, v), lambda r, s, u, v: r.half_edge_to_corner(u, v), "exact"),
    "c2f": ("corner", lambda m, c, x: c.corner_to_face(x), lambda r, s, x: r.corner_to_face(x), "exact"),
    "v2cif": ("corner", lambda m, c, v, f: c.vertex_to_corner_in_face(v, f), lambda r, s, v, f: r.vertex_to_corner_in_face(v, f), "exact"),
    "f2c": ("corner", lambda m, c, f: c.face_to_corners(f), lambda r, s, f: r.face_to_corners(f), "exact"),
    "f1c": ("corner", lambda m, c, f: c.face_to_first_corner(f), lambda r, s, f: r.first[f], "exact"),
    "cvert": ("corner", lambda m, c, x: m.face_corners[x], lambda r, s, x: r.corner_vertex(x), "exact"),
    # edge / face lookup
    "edge_id": ("lookup", lambda m, c, u, v: c.edge_id(u, v), lambda r, s, u, v: r.edge_id(u, v) if r.is_edge(u, v) else None, "exact"),
    "face_id": ("lookup", lambda m, c, *vs: c.face_id(*vs), lambda r, s, *vs: r.face_id(vs), "exact"),
    "face_id_coll": ("lookup", lambda m, c, *vs: c.face_id(list(vs)), lambda r, s, *vs: r.face_id(vs), "exact"),  # the face as one collection
    "face_id_row": ("lookup", lambda m, c, f: c.face_id(m.faces[f]), lambda r, s, f: f, "exact"),                 # ... as the stored row itself
    "direct_face": ("lookup", lambda m, c, u, v: c.direct_face(u, v), lambda r, s, u, v: r.direct_face(u, v), "exact"),
    "direct_face_inds": ("lookup", lambda m, c, u, v: c.direct_face(u, v, True), lambda r, s, u, v: list(r.direct_face_inds(u, v)), "exact"),
    "edge_to_faces": ("lookup", lambda m, c, u, v: c.edge_to_faces(u, v), lambda r, s, u, v: [r.direct_face(u, v), r.direct_face(v, u)], "exact"),
    "opposite_face": ("lookup", lambda m, c, u, v, F: c.opposite_face(u, v, F), lambda r, s, u, v, F: r.opposite_face(u, v, F), "exact"),
    "opposite_face_inds": ("lookup", lambda m, c, u, v, F: c.opposite_face(u, v, F, True), _opp_face_inds, "exact"),
    "common_edge": ("lookup", lambda m, c, f1, f2: c.common_edge(f1, f2), _common_edge, "anyof"),
    "f2f": ("lookup", lambda m, c, f: c.face_to_faces(f), lambda r, s, f: r.face_to_faces(f), "set"),  # no order is stated
    "f2e": ("lookup", lambda m, c, f: c.face_to_edges(f),
            lambda r, s, f: [r.edge_id(r.faces[f][j], r.faces[f][(j + 1) % len(r.faces[f])]) for j in range(len(r.faces[f]))], "exact"),
    "f2v": ("lookup", lambda m, c, f: c.face_to_vertices(f), lambda r, s, f: list(r.faces[f]), "exact"),
    "in_face_index": ("lookup", lambda m, c, f, v: c.in_face_index(f, v), lambda r, s, f, v: r.faces[f].index(v) if v in r.faces[f] else None, "exact"),
    "other_edge_end": ("lookup", lambda m, c, e, v: c.other_edge_end(e, v),
                       lambda r, s, e, v: (r.edges[e][1] if r.edges[e][0] == v else r.edges[e][0] if r.edges[e][1] == v else None), "exact"),
    "e2v": ("lookup", lambda m, c, e: c.edge_to_vertices(e), lambda r, s, e: list(r.edges[e]), "exact"),
    # border classifier
    "boundary_edges": ("border", lambda m, c: m.boundary_edges, lambda r, s: sorted(r.edge_id(*e) for e in r.border_edge_pairs()), "set"),
    "interior_edges": ("border", lambda m, c: m.interior_edges,
                       lambda r, s: sorted(i for i, e in enumerate(r.edges) if tuple(sorted(e)) not in r.border_edge_pairs()), "set"),
    "boundary_vertices": ("border", lambda m, c: m.boundary_vertices, lambda r, s: sorted(r.border_vertices()), "set"),
    "interior_vertices": ("border", lambda m, c: m.interior_vertices, lambda r, s: sorted(set(range(r.nv)) - r.border_vertices()), "set"),
    "is_edge_on_border": ("border", lambda m, c, u, v: m.is_edge_on_border(u, v), lambda r, s, u, v: r.is_edge(u, v) and r.is_border_edge(u, v), "bool"),
    "is_vertex_on_border": ("border", lambda m, c, v: m.is_vertex_on_border(v), lambda r, s, v: v in r.border_vertices(), "bool"),
    "is_triangular": ("border", lambda m, c: m.is_triangular(), lambda r, s: all(len(f) == 3 for f in r.faces), "bool"),
    "is_quad": ("border", lambda m, c: m.is_quad(), lambda r, s: all(len(f) == 4 for f in r.faces), "bool"),
}
FAMILY = {k: v[0] for k, v in Q.items()}
BACKGROUND = ["bg_euler", "bg_degree", "bg_border_cycle", "bg_str", "bg_other_mesh"]


def build_mesh(world):
    import mouette as M
    from mouette.mesh.mesh_data import RawMeshData
    data = RawMeshData()
    data.vertices += [list(p) for p in world["points"]]
    for e in world.get("declared_edges", []):
        data.edges.append(tuple(e))
    fl = world.get("flavour", "list")
    if fl == "tuple":
        data.faces += [tuple(f) for f in world["faces"]]
    elif fl == "numpy":
        import numpy as np
        data.faces += [np.array(f) for f in world["faces"]]
    else:
        data.faces += [list(f) for f in world["faces"]]
    return M.mesh.SurfaceMesh(data)


def judge(qname, mode, got, exp, sort_on):
    """None if the answer agrees with direct inspection of the face list, else a short reason."""
    g = canon(got)
    if mode == "exact":
        e = canon(exp)
        return None if g == e else "expected %r" % (e,)
    if mode == "bool":
        return None if bool(got) == bool(exp) else "expected %r" % (exp,)
    if mode == "set":
        if not isinstance(g, list):
            return "expected a list"
        return None if sorted(g) == sorted(canon(exp)) else "expected (as a set) %r" % (sorted(canon(exp)),)
    if mode == "anyof":
        return None if g in canon(exp) else "expected one of %r" % (canon(exp),)
    if mode == "ring":
        border, seq = exp
        if not isinstance(g, list):
            return "expected a list"
        if not sort_on:
            return None if sorted(g, key=repr) == sorted(seq, key=repr) else "expected (as a set, sorting is off) %r" % (seq,)
        if border:
            return None if g == seq else "expected the linear rotational order %r (border vertex)" % (seq,)
        return None if cyclic_equal(g, seq) else "expected a rotation of %r (interior vertex)" % (seq,)
    raise ValueError(mode)


class C01(Sim):
    PROP = "C01"
    RULE = ("one run = one generated oriented manifold polygon surface shared by 3-6 query clients under a seeded "
            "scheduler (+ cache drops in odd seeds), then the same queries on a fresh instance in another order, then a "
            "sample of them alone on fresh instances; distinct = distinct (mesh class (V,E,F,chi,border loops,components,"
            "arities), sort mode, first-touch order of the lazy caches); non-trivial = >= 3 judged queries from >= 2 families")
    FAULT_KINDS = ["cache_drop", "bad_index"]
    PROBES = ["border_vertex_ring", "interior_vertex_ring", "sort_off", "query_after_drop", "miss_query", "polygon_face",
              "genus>0", "multi_component", "fresh_single_query", "reordered_pass", "isolated_vertex", "second_surface", "sort_switched"]
    QUICK_RUNS = 6000
    THOROUGH_RUNS = 600000
    BLOCK = 50
    ASSUMPTIONS = ["query arguments are valid element indices (misses are non-edges / non-faces / non-incident pairs, never out-of-range ids)",
                   "no two faces have the same vertex set (face_id is keyed by the vertex set)",
                   "config.sort_neighborhoods is switched only together with a drop of the connectivity caches (it applies when they are computed)",
                   "rotational order convention of DESIGN.md Appendix A (pinned by tests/test_surfaces.py::test_sorted_neighborhood)"]
    COMPONENTS = {"real": ["mouette.mesh.datatypes.surface/linear", "mouette.mesh.mesh_data", "mouette.attributes (background)", "mouette.processing.border (background)"],
                  "stub": ["none (no I/O, clock or PRNG in these accessors)"]}

    # ------------------------------------------------------------------ config
    def gen_config(self, rng, tier):
        size = rng.choice([2, 6, 12, 25, 40, 60] if tier == "quick" else [2, 6, 12, 25, 60, 120, 250, 400])
        pts, faces = surfgen.gen_surface(rng.fork("world"), size)
        if rng.chance(0.15):
            # isolated vertices (points no face uses): every ring is empty, they are interior, nothing else changes
            for _ in range(rng.randint(1, 2)):
                pts.append([rng.uniform(-1, 1), rng.uniform(-1, 1), 2.0])
        ref = RefSurface(len(pts), faces)
        decl = []
        if rng.chance(0.3):
            pairs = sorted(ref.all_edge_pairs())
            decl = [list(rng.choice(pairs)) if rng.chance(0.5) else list(reversed(rng.choice(pairs))) for _ in range(rng.randint(1, 3))]
            decl = [list(x) for x in dict.fromkeys(tuple(sorted(e)) for e in decl)]
        clients = ["ring", "corner", "lookup", "border"]
        if rng.chance(0.5):
            clients.append(rng.choice(["ring", "corner", "lookup"]))
        if rng.chance(0.5):
            clients.append("background")
        fams = rng.subset(["ring", "corner", "lookup", "border"], 0.75, at_least=2)
        return {"world": {"points": [[round(x, 6) for x in p] for p in pts], "faces": faces, "declared_edges": decl,
                          "flavour": rng.wchoice(["list", "tuple", "numpy"], [3, 1, 1])},
                "sort": rng.chance(0.75), "clients": [c for c in clients if c in fams or c == "background"],
                "max_steps": rng.randint(5, 40 if tier == "quick" else 80), "burst": rng.choice([0.2, 0.5, 0.8]),
                "miss_rate": rng.choice([0.1, 0.3]), "drop_rate": rng.choice([0.05, 0.15, 0.3]),
                "ops_off": rng.subset(sorted(Q), 0.15), "n_fresh": rng.randint(1, 6)}

    def start(self, cfg):
        import mouette as M
        self.M = M
        M.config.sort_neighborhoods = bool(cfg["sort"])
        self.mesh = build_mesh(cfg["world"])
        w = cfg["world"]
        self.ref = RefSurface(len(w["points"]), w["faces"], [tuple(e) for e in self.mesh.edges])
        self._check_edge_list()
        self.others = []
        self.judged = []  # (ev) of judged queries in order
        self.fams = set()
        self.first_touch = []
        self.dropped = False
        if not cfg["sort"]:
            self.probes["sort_off"] += 1
        if any(len(f) > 4 for f in w["faces"]):
            self.probes["polygon_face"] += 1
        r = self.ref
        self.chi, self.loops, self.comps = r.euler(), r.border_loops(), r.components()
        if (2 * self.comps - self.chi - self.loops) > 0:
            self.probes["genus>0"] += 1
        if self.comps > 1:
            self.probes["multi_component"] += 1
        if len({v for f in w["faces"] for v in f}) < len(w["points"]):
            self.probes["isolated_vertex"] += 1
        self.border_v = sorted(r.border_vertices())
        self.interior_v = sorted(set(range(r.nv)) - set(self.border_v))
        self.edge_pairs = sorted(r.all_edge_pairs())

    def _check_edge_list(self):
        """edge identifiers are indices into the mesh's own edge list: it must hold each side of each face exactly once"""
        el = [tuple(sorted(e)) for e in self.ref.edges]
        if sorted(el) != sorted(self.ref.all_edge_pairs()):
            self.violation("edge-identifiers", "build", "wrong_value", "edges", "", "mesh.edges=%r, sides of faces=%r" % (el, sorted(self.ref.all_edge_pairs())))

    # ------------------------------------------------------------------ proposing
    def _gen_args(self, r, q):
        ref = self.ref
        nf, nv, nc = len(ref.faces), ref.nv, ref.nc
        miss = r.chance(self.cfg["miss_rate"])
        rv = lambda: r.below(nv)
        rf = lambda: r.below(nf)

        def an_edge():
            e = r.choice(self.edge_pairs)
            return list(e) if r.chance(0.5) else [e[1], e[0]]

        def a_halfedge():
            f = ref.faces[rf()]
            j = r.below(len(f))
            return [f[j], f[(j + 1) % len(f)]]

        if q in ("v2v", "v2f", "v2c", "v2e", "is_vertex_on_border"):
            pool = self.border_v if (self.border_v and r.chance(0.5)) else (self.interior_v or self.border_v)
            return [r.choice(pool)]
        if q in ("next", "prev", "opp", "c2he", "c2f", "cvert"):
            return [r.below(nc)]
        if q in ("he2c", "direct_face", "direct_face_inds", "edge_to_faces", "edge_id", "is_edge_on_border"):
            if miss:
                return [rv(), rv()]
            return a_halfedge() if r.chance(0.5) else an_edge()
        if q == "v2cif":
            f = rf()
            return [r.choice(ref.faces[f]) if not miss else rv(), f]
        if q in ("f2c", "f1c", "f2f", "f2e", "f2v"):
            return [rf()]
        if q == "face_id_row":
            return [rf()]
        if q in ("face_id", "face_id_coll"):
            f = list(ref.faces[rf()])
            if miss:
                f[r.below(len(f))] = rv()
            else:
                r.shuffle(f)
            return f
        if q in ("opposite_face", "opposite_face_inds"):
            u, v = a_halfedge() if not miss else an_edge()
            F = ref.direct_face(u, v) if (r.chance(0.7) and ref.direct_face(u, v) is not None) else rf()
            if r.chance(0.3):
                u, v = v, u
            return [u, v, F]
        if q == "common_edge":
            f1 = rf()
            nb = ref.face_to_faces(f1)
            f2 = r.choice(nb) if (nb and not miss) else rf()
            return [f1, f2]
        if q == "in_face_index":
            f = rf()
            return [f, r.choice(ref.faces[f]) if not miss else rv()]
        if q == "other_edge_end":
            e = r.below(len(ref.edges))
            return [e, r.choice(ref.edges[e]) if not miss else rv()]
        if q == "e2v":
            return [r.below(len(ref.edges))]
        return []

    @property
    def sort(self):
        """the neighbourhood-sorting mode in force (a run may switch it, together with a cache drop); helpers built by other checks have only cfg"""
        return getattr(self, "_sort", None) if getattr(self, "_sort", None) is not None else bool(self.cfg["sort"])

    # ------------------------------------------------------------------ admissible events (replays on a shrunk world drop the others)
    ARGKIND = {**{q: "v" for q in ("v2v", "v2f", "v2c", "v2e", "is_vertex_on_border")},
               **{q: "c" for q in ("next", "prev", "opp", "c2he", "c2f", "cvert")},
               **{q: "vv" for q in ("he2c", "direct_face", "direct_face_inds", "edge_to_faces", "edge_id", "is_edge_on_border")},
               **{q: "f" for q in ("f2c", "f1c", "f2f", "f2e", "f2v", "face_id_row")},
               "v2cif": "vf", "opposite_face": "vvf", "opposite_face_inds": "vvf", "common_edge": "ff", "in_face_index": "fv",
               "other_edge_end": "ev", "e2v": "e"}

    def applicable(self, ev):
        q = ev["op"]
        if q not in Q:
            return True
        args = ev.get("args", [])
        ref = self.ref
        bound = {"v": ref.nv, "f": len(ref.faces), "c": ref.nc, "e": len(ref.edges)}
        kinds = self.ARGKIND.get(q, "v" * len(args) if q in ("face_id", "face_id_coll") else "")
        if len(kinds) != len(args):
            return False
        return all(isinstance(a, (int, np.integer)) and 0 <= a < bound[k] for a, k in zip(args, kinds))

    def shrink_cfgs(self, cfg):
        """fewer faces (halves, quarters, eighths, single faces), with and without dropping the vertices no face uses any more;
        only oriented manifold meshes - the property's domain - are proposed"""
        from models.ref_surface import is_oriented_manifold
        w = cfg["world"]
        faces, pts = w["faces"], w["points"]
        for lo, hi in surfgen.drop_chunks(len(faces)):
            nf = faces[:lo] + faces[hi:]
            for comp in (True, False):
                if comp:
                    p2, f2, m = surfgen.compact_with_map(pts, nf)
                    if len(p2) == len(pts):
                        continue
                else:
                    p2, f2, m = pts, nf, {i: i for i in range(len(pts))}
                if not f2 or not is_oriented_manifold(len(p2), f2):
                    continue
                pairs = {tuple(sorted((f[j], f[(j + 1) % len(f)]))) for f in f2 for j in range(len(f))}
                decl = [[m[a], m[b]] for a, b in w.get("declared_edges", []) if a in m and b in m and tuple(sorted((m[a], m[b]))) in pairs]
                yield dict(cfg, world=dict(w, points=p2, faces=f2, declared_edges=decl))

    def propose(self, rng):
        cfg = self.cfg
        names = list(dict.fromkeys(cfg["clients"] + (["dropper"] if cfg["faults_on"] else [])))
        weights = [cfg["clients"].count(n) or cfg["drop_rate"] * 4 for n in names]
        c = self.pick_client(rng, names, weights, cfg["burst"])
        r = self.client_rng(c)
        if c == "dropper" and r.chance(0.3):
            # fault 'bad_index': a query about an element that does not exist.  Its own outcome (None, an exception ...) is not judged;
            # what is: every later answer is still right (a failing query must not leave a half-built cache behind)
            qs = [q for q in sorted(Q) if len(self._gen_args(Rng(1), q)) >= 1]
            q = r.choice(qs)
            args = self._gen_args(r, q)
            args[r.below(len(args))] = 10 ** 6 + r.below(5)
            return {"c": c, "op": "bad_index", "q": q, "args": args}
        if c == "dropper":
            return {"c": c, "op": r.choice(["drop_connectivity", "drop_boundary", "drop_both", "drop_flip_sort"])}
        if c == "background":
            return {"c": c, "op": r.choice(BACKGROUND)}
        qs = [q for q in sorted(Q) if FAMILY[q] == c and q not in cfg["ops_off"]] or [q for q in sorted(Q) if FAMILY[q] == c]
        q = r.choice(qs)
        return {"c": c, "op": q, "args": self._gen_args(r, q)}

    # ------------------------------------------------------------------ executing a query against (mesh, ref)
    def _touch_state(self, mesh):
        """read-only introspection for the coverage measure only (never used by an oracle)"""
        c = mesh.connectivity
        names = ("_half_edges", "_Cn2he", "_adjVF2Cn", "_adjV2Cn", "_adjF2Cn", "_face_id", "_edge_id", "_adjV2V")
        st = tuple(getattr(c, n, "?") is None for n in names)
        st += tuple(getattr(mesh, n, "?") is None for n in ("_boundary_edges", "_interior_edges", "_boundary_vertices", "_interior_vertices", "_is_vertex_on_border"))
        return st

    def run_query(self, mesh, ev, clause_prefix=""):
        q = ev["op"]
        fam, fn, expf, mode = Q[q]
        args = ev["args"]
        out = call(fn, mesh, mesh.connectivity, *args)
        ac = self._argclass(q, args)
        if not out.ok:
            self.exc_violation(clause_prefix + "query-never-fails", q, out, ac, "%s%r raised on valid arguments" % (q, tuple(args)))
        exp = expf(self.ref, self, *args)
        why = judge(q, mode, out.value, exp, self.sort)
        if why is not None:
            self.violation(clause_prefix + "agrees-with-face-list", q, "wrong_value", q, ac, "%s%r = %r; %s" % (q, tuple(args), canon(out.value), why))
        return out.value

    def _argclass(self, q, args):
        ref = self.ref
        if q in ("v2v", "v2f", "v2c", "v2e"):
            b = args[0] in self.border_v
            self.probes["border_vertex_ring" if b else "interior_vertex_ring"] += 1
            return ("border" if b else "interior") + ("" if self.sort else "/unsorted")
        if q in ("he2c", "direct_face", "direct_face_inds", "edge_to_faces", "edge_id", "is_edge_on_border"):
            u, v = args
            if not ref.is_edge(u, v):
                self.probes["miss_query"] += 1
                return "non-edge"
            return "border-edge" if ref.is_border_edge(u, v) else "interior-edge"
        if q in ("face_id", "face_id_coll"):
            if ref.face_id(args) is None:
                self.probes["miss_query"] += 1
                return "non-face"
            return "face/%d" % len(args)
        if q in ("opp",):
            return "border" if ref.opposite_corner(args[0]) is None else "interior"
        return ""

    # ------------------------------------------------------------------ step
    def step(self, ev):
        self.calls += 1
        op = ev["op"]
        mesh = self.mesh
        if op == "bad_index":
            fam, fn, expf, mode = Q[ev["q"]]
            o = call(fn, mesh, mesh.connectivity, *ev["args"])
            self.faults["bad_index"] += 1
            self.dropped = self.dropped  # (caches may or may not have been built by the failing call)
            return o.brief()
        if op == "drop_flip_sort":
            # the sorting switch is changed and the connectivity dropped: everything computed from now on follows the new mode
            self._sort = not self.sort
            self.M.config.sort_neighborhoods = self._sort
            self.probes["sort_switched"] += 1
        if op.startswith("drop_"):
            if op in ("drop_connectivity", "drop_both", "drop_flip_sort"):
                o = call(mesh.connectivity.clear)
                if not o.ok:
                    self.exc_violation("cache-drop", op, o)
            if op in ("drop_boundary", "drop_both"):
                o = call(mesh.clear_boundary_data)
                if not o.ok:
                    self.exc_violation("cache-drop", op, o)
            self.dropped = True
            return "dropped"
        if op.startswith("bg_"):
            M = self.M
            def other_mesh():
                # ANOTHER surface is built and queried in the same process (kept alive): nothing of it may show in the mesh under test
                from mouette.mesh.mesh_data import RawMeshData
                d = RawMeshData()
                d.vertices += [[0.0, 0.0, 5.0], [1.0, 0.0, 5.0], [1.0, 1.0, 5.0], [0.0, 1.0, 5.0], [2.0, 0.5, 5.0]]
                d.faces += [[3, 0, 1], [1, 2, 3], [2, 1, 4]]
                o_ = M.mesh.SurfaceMesh(d)
                self.others.append(o_)
                self.probes["second_surface"] += 1
                return (o_.connectivity.vertex_to_vertices(1), o_.connectivity.face_to_faces(1), list(o_.boundary_edges), o_.is_vertex_on_border(4),
                        o_.connectivity.edge_id(1, 3), o_.connectivity.face_id(1, 2, 3))
            fn = {"bg_other_mesh": other_mesh,
                  "bg_euler": lambda: M.attributes.euler_characteristic(mesh),
                  "bg_degree": lambda: M.attributes.degree(mesh),
                  "bg_border_cycle": lambda: M.processing.border.extract_border_cycle_all(mesh),
                  "bg_str": lambda: str(mesh)}[op]
            o = call(fn)  # state perturber only: result and exceptions are logged, never judged here
            return o.brief()
        before = self._touch_state(mesh)
        val = self.run_query(mesh, ev)
        after = self._touch_state(mesh)
        if before != after:
            self.first_touch.append(FAMILY[op][0] + ":" + "".join("1" if (b and not a) else "0" for b, a in zip(before, after)))
            if self.dropped:
                self.faults["cache_drop"] += 1  # fired: a later query found a cache empty again
                self.probes["query_after_drop"] += 1
                self.dropped = False
        self.judged.append(ev)
        self.fams.add(FAMILY[op])
        return canon(val)

    # ------------------------------------------------------------------ history oracles
    def finish(self):
        if not self.judged:
            return
        cfg = self.cfg
        # (a) same queries, fresh instance, independently drawn order
        # the independent order is a per-event hash order: removing events (minimisation) keeps the relative order of the others
        order = sorted(self.judged, key=lambda e: h64(cfg["seed"], "reorder", e["uid"]))
        fresh = build_mesh(cfg["world"])
        self.probes["reordered_pass"] += 1
        for ev in order:
            self.run_query(fresh, ev, "order-independence/")
        # (b) a sample of the queries, each ALONE on a freshly built mesh
        seen = set()
        cands = []
        for ev in self.judged:
            if ev["op"] not in seen:
                seen.add(ev["op"])
                cands.append(ev)
        cands.sort(key=lambda e: h64(cfg["seed"], "fresh", e["uid"]))
        for ev in cands[:cfg["n_fresh"]]:
            m = build_mesh(cfg["world"])
            self.probes["fresh_single_query"] += 1
            self.run_query(m, ev, "fresh-mesh/")

    def nontrivial(self):
        return len(self.judged) >= 3 and len(self.fams) >= 2

    def class_key(self):
        w = self.cfg["world"]
        ar = sorted({len(f) for f in w["faces"]})
        return "V%d F%d chi%d b%d c%d ar%s s%d|%s" % (len(w["points"]), len(w["faces"]), self.chi, self.loops, self.comps,
                                                     ar, int(self.cfg["sort"]), ">".join(self.first_touch[:6]))


SIM = C01
