"""C03 - volume connectivity answers agree with the cell list; the extracted boundary is closed, exact,
outward and its index maps are mutually inverse.

World: ONE conforming tetrahedral mesh shared by clients (cell/face reader, edge-ring reader, lookup, border
classifier, boundary extractor).  Seeded interleaving; cache drops (connectivity.clear()) in odd seeds; the same
queries are re-issued on a fresh instance in another order, and a sample alone on fresh instances."""
import numpy as np

from sim.engine import Sim, call, canon
from sim.rng import Rng, h64
from models.ref_volume import RefVolume, seq_equal_mod, outward, lib_orientation
from models import volgen


def _edge_ring(kind):
    def f(ref, sim, e):
        border, cs, fs = ref.edge_ring(e)
        return (border, cs if kind == "cells" else fs)
    return f


Q = {
    # cell / face reader
    "f2c": ("cell", lambda m, c, f: c.face_to_cells(f), lambda r, s, f: r.face_to_cells(f), "set"),
    "c2f": ("cell", lambda m, c, x: c.cell_to_face(x), lambda r, s, x: r.cell_to_face(x), "exact"),
    "c2c": ("cell", lambda m, c, x: c.cell_to_cell(x), lambda r, s, x: r.cell_to_cell(x), "set"),  # no order is stated
    "v2c": ("cell", lambda m, c, v: c.vertex_to_cell(v), lambda r, s, v: r.vertex_to_cell(v), "set"),
    "c2v": ("cell", lambda m, c, x: c.cell_to_vertex(x), lambda r, s, x: list(r.cells[x]), "exact"),
    "c2e": ("cell", lambda m, c, x: c.cell_to_edge(x), lambda r, s, x: r.cell_to_edge(x), "set"),
    "n_f2c": ("cell", lambda m, c, f: c.n_F2C(f), lambda r, s, f: len(r.face_to_cells(f)), "exact"),
    # edge rings
    "e2c": ("ring", lambda m, c, e: c.edge_to_cell(e), _edge_ring("cells"), "ring"),
    "e2f": ("ring", lambda m, c, e: c.edge_to_face(e), _edge_ring("faces"), "ring"),
    # lookup
    "in_cell_index": ("lookup", lambda m, c, x, v: c.in_cell_index(x, v), lambda r, s, x, v: r.cells[x].index(v) if v in r.cells[x] else None, "exact"),
    "in_cell_face_index": ("lookup", lambda m, c, x, f: c.in_cell_face_index(x, f), lambda r, s, x, f: r.in_cell_face_index(x, f), "exact"),
    "common_face": ("lookup", lambda m, c, a, b: c.common_face(a, b), lambda r, s, a, b: r.common_face(a, b), "exact"),
    "other_face_side": ("lookup", lambda m, c, x, f: c.other_face_side(x, f), lambda r, s, x, f: r.other_face_side(x, f), "exact"),
    "face_id": ("lookup", lambda m, c, *vs: c.face_id(*vs), lambda r, s, *vs: r.fid.get(tuple(sorted(vs))), "exact"),
    "edge_id": ("lookup", lambda m, c, u, v: c.edge_id(u, v), lambda r, s, u, v: r.eid.get(tuple(sorted((u, v)))), "exact"),
    "f2e": ("lookup", lambda m, c, f: c.face_to_edges(f),
            lambda r, s, f: [r.eid[tuple(sorted((r.faces[f][j], r.faces[f][(j + 1) % 3])))] for j in range(3)], "exact"),
    "f2v": ("lookup", lambda m, c, f: c.face_to_vertices(f), lambda r, s, f: list(r.faces[f]), "exact"),
    # border classifier
    "boundary_faces": ("border", lambda m, c: m.boundary_faces, lambda r, s: r.border_faces(), "set"),
    "interior_faces": ("border", lambda m, c: m.interior_faces, lambda r, s: sorted(set(range(len(r.faces))) - set(r.border_faces())), "set"),
    "boundary_edges": ("border", lambda m, c: m.boundary_edges, lambda r, s: sorted(r.eid[k] for k in r.border_edge_keys()), "set"),
    "interior_edges": ("border", lambda m, c: m.interior_edges,
                       lambda r, s: sorted(set(range(len(r.edges))) - {r.eid[k] for k in r.border_edge_keys()}), "set"),
    "boundary_vertices": ("border", lambda m, c: m.boundary_vertices, lambda r, s: sorted(r.border_vertices()), "set"),
    "interior_vertices": ("border", lambda m, c: m.interior_vertices, lambda r, s: sorted(set(range(r.nv)) - r.border_vertices()), "set"),
    "is_face_on_border": ("border", lambda m, c, f: m.is_face_on_border(f), lambda r, s, f: len(r.face_to_cells(f)) < 2, "bool"),
    "is_face_on_border_v": ("border", lambda m, c, *vs: m.is_face_on_border(*vs), lambda r, s, *vs: len(r.tri_cells[tuple(sorted(vs))]) < 2, "bool"),
    "is_edge_on_border": ("border", lambda m, c, e: m.is_edge_on_border(e), lambda r, s, e: tuple(sorted(r.edges[e])) in r.border_edge_keys(), "bool"),
    "is_edge_on_border_v": ("border", lambda m, c, u, v: m.is_edge_on_border(u, v), lambda r, s, u, v: tuple(sorted((u, v))) in r.border_edge_keys(), "bool"),
    "is_vertex_on_border": ("border", lambda m, c, v: m.is_vertex_on_border(v), lambda r, s, v: v in r.border_vertices(), "bool"),
    "is_tetrahedral": ("border", lambda m, c: m.is_tetrahedral(), lambda r, s: True, "bool"),
}
FAMILY = {k: v[0] for k, v in Q.items()}


def world_points(world):
    """the coordinates as the mesh gets them: the generated shape times the world's scale (a cube of side 1e-4 is a mesh all the same)"""
    k = world.get("scale", 1.0)
    return [[k * x for x in p] for p in world["points"]]


def build_mesh(world):
    import mouette as M
    from mouette.mesh.mesh_data import RawMeshData
    data = RawMeshData()
    data.vertices += world_points(world)
    fl = world.get("flavour", "list")
    if world.get("declared"):
        # (some of) the triangles are listed explicitly next to the cells, with a winding of the file's choosing (medit / .tet files do)
        conv_ = {"tuple": tuple, "numpy": __import__("numpy").array}.get(fl, list)
        data.faces += [conv_(f) for f in world["declared"]]
    if fl == "tuple":
        data.cells += [tuple(c) for c in world["cells"]]
    elif fl == "numpy":
        import numpy as np
        data.cells += [np.array(c) for c in world["cells"]]
    else:
        data.cells += [list(c) for c in world["cells"]]
    return M.mesh.VolumeMesh(data)


def judge(mode, got, exp, sort_on):
    g = canon(got)
    if mode == "exact":
        e = canon(exp)
        return None if g == e else "expected %r" % (e,)
    if mode == "bool":
        return None if bool(got) == bool(exp) else "expected %r" % (exp,)
    if mode == "set":
        if not isinstance(g, list):
            return "expected a list"
        return None if sorted(g) == sorted(canon(exp)) else "expected (as a set) %r" % (sorted(canon(exp)),)
    if mode == "ring":
        border, seq = exp
        if not isinstance(g, list):
            return "expected a list"
        if not sort_on:
            return None if sorted(g) == sorted(seq) else "expected (as a set, sorting is off) %r" % (seq,)
        if seq_equal_mod(g, seq, cyclic=not border):
            return None
        return "expected %r up to %s" % (seq, "reversal (border edge)" if border else "rotation and reflection (interior edge)")
    raise ValueError(mode)


class C03(Sim):
    PROP = "C03"
    RULE = ("one run = one generated conforming tetrahedral mesh shared by 3-6 query clients (+ boundary extractor) under a seeded "
            "scheduler (+ cache drops in odd seeds), then the same queries on a fresh instance in another order and a sample alone on "
            "fresh instances; distinct = distinct (mesh class (V,C, #interior vertices/edges, orientation mode), sort mode, first-touch "
            "order of the lazy caches); non-trivial = >= 3 judged queries from >= 2 families")
    FAULT_KINDS = ["cache_drop", "bad_index"]
    PROBES = ["interior_edge_ring", "border_edge_ring", "sort_off", "query_after_drop", "miss_query", "interior_vertex", "boundary_extracted",
              "standalone_extracted", "standalone_outward_checked", "mixed_orientation", "fresh_single_query", "reordered_pass", "second_volume", "declared_triangles", "tiny_geometry", "sort_switched", "background_library_call"]
    QUICK_RUNS = 3000
    THOROUGH_RUNS = 300000
    BLOCK = 25
    ASSUMPTIONS = ["query arguments are valid element indices; misses are non-incident pairs / non-faces, never out-of-range ids",
                   "'positively oriented' is the library's own convention det(pA-pD,pB-pD,pC-pD)>0 for cell (A,B,C,D) (the one its boundary code uses)",
                   "the standalone extractor's orientation is judged only when every face was completed from the cells (none declared explicitly) and every cell is positive",
                   "config.sort_neighborhoods is switched only together with a drop of the connectivity caches (it applies when they are computed)"]
    COMPONENTS = {"real": ["mouette.mesh.datatypes.volume/surface/linear", "mouette.mesh.mesh_data", "mouette.processing.border.extract_boundary_of_volume"],
                  "stub": ["none"]}

    def gen_config(self, rng, tier):
        size = rng.choice([1, 5, 12, 25, 40] if tier == "quick" else [1, 5, 12, 25, 60, 120, 250, 400])
        pts, cells, mode = volgen.gen_tets(rng.fork("world"), size)
        clients = ["cell", "ring", "lookup", "border"]
        fams = rng.subset(clients, 0.75, at_least=2)
        cl = [c for c in clients if c in fams]
        if rng.chance(0.6):
            cl.append("boundary")
        if rng.chance(0.4):
            cl.append(rng.choice(fams))
        world2 = None
        if "boundary" in cl and rng.chance(0.5):
            p2, c2, m2 = volgen.gen_tets(rng.fork("world2"), rng.choice([1, 4, 8]))
            world2 = {"points": p2, "cells": c2, "orient": m2}  # a second, unrelated volume in the same process (cross-object histories)
        declared = []
        if rng.chance(0.3):
            dr = rng.fork("declared")
            cnt = {}
            for c in cells:
                for q in range(4):
                    t = tuple(sorted(c[:q] + c[q + 1:]))
                    cnt[t] = cnt.get(t, 0) + 1
            tris = sorted(cnt)
            border = [t for t in tris if cnt[t] == 1]
            pick = dr.subset(border, dr.choice([0.3, 0.7, 1.0]), at_least=1) + (dr.subset(tris, 0.1) if dr.chance(0.3) else [])
            seen = set()
            for t in pick:
                if t in seen:
                    continue
                seen.add(t)
                t = list(t)
                dr.shuffle(t)  # any winding, any first vertex
                declared.append(t)
        scale = rng.wchoice([1.0, 1e-4, 1e-2, 1e3], [6, 1.5, 1, 1])  # absolute size of the geometry: orientation tests must not depend on it
        return {"world": {"points": pts, "cells": cells, "orient": mode, "scale": scale, "declared": declared, "flavour": rng.wchoice(["list", "tuple", "numpy"], [3, 1, 1])}, "world2": world2, "sort": rng.chance(0.8), "clients": cl,
                "max_steps": rng.randint(5, 35 if tier == "quick" else 70), "burst": rng.choice([0.2, 0.5, 0.8]),
                "miss_rate": rng.choice([0.1, 0.3]), "drop_rate": rng.choice([0.05, 0.15, 0.3]),
                "ops_off": rng.subset(sorted(Q), 0.15), "n_fresh": rng.randint(1, 5)}

    def start(self, cfg):
        import mouette as M
        self.M = M
        M.config.sort_neighborhoods = bool(cfg["sort"])
        self.mesh = build_mesh(cfg["world"])
        self.ref = self._ref_for(self.mesh)
        self.other = self.ref_other = None
        if cfg.get("world2"):
            self.other = build_mesh(cfg["world2"])
            w2 = cfg["world2"]
            self.ref_other = RefVolume(world_points(w2), w2["cells"], [list(f) for f in self.other.faces], [tuple(e) for e in self.other.edges])
        self._check_lists()
        self.judged, self.fams, self.first_touch = [], set(), []
        self.dropped = False
        r = self.ref
        if not cfg["sort"]:
            self.probes["sort_off"] += 1
        if cfg["world"]["orient"] == "mixed":
            self.probes["mixed_orientation"] += 1
        if cfg["world"].get("declared"):
            self.probes["declared_triangles"] += 1
        if cfg["world"].get("scale", 1.0) < 1e-3:
            self.probes["tiny_geometry"] += 1
        bk = r.border_edge_keys()
        self.border_e = sorted(r.eid[k] for k in bk)
        self.interior_e = sorted(set(range(len(r.edges))) - set(self.border_e))
        self.n_int_v = r.nv - len(r.border_vertices())
        if self.n_int_v:
            self.probes["interior_vertex"] += 1

    def _ref_for(self, mesh):
        w = self.cfg["world"]
        return RefVolume(world_points(w), w["cells"], [list(f) for f in mesh.faces], [tuple(e) for e in mesh.edges])

    def _check_lists(self):
        """face / edge identifiers index the mesh's own lists: these must hold every triangle / edge of the cells exactly once"""
        r = self.ref
        fl = sorted(tuple(sorted(f)) for f in r.faces)
        if fl != sorted(r.tri_cells):
            self.violation("face-identifiers", "build", "wrong_value", "faces", "", "mesh.faces do not list every cell triangle exactly once")
        el = sorted(tuple(sorted(e)) for e in r.edges)
        if el != sorted(r.edge_cells):
            self.violation("edge-identifiers", "build", "wrong_value", "edges", "", "mesh.edges do not list every cell edge exactly once")

    # ------------------------------------------------------------------ proposing
    def _gen_args(self, r, q):
        ref = self.ref
        nc, nf, ne, nv = len(ref.cells), len(ref.faces), len(ref.edges), ref.nv
        miss = r.chance(self.cfg["miss_rate"])
        if q in ("f2c", "n_f2c", "f2e", "f2v", "is_face_on_border"):
            return [r.below(nf)]
        if q in ("c2f", "c2c", "c2v", "c2e"):
            return [r.below(nc)]
        if q in ("v2c", "is_vertex_on_border"):
            return [r.below(nv)]
        if q in ("e2c", "e2f", "is_edge_on_border"):
            pool = self.interior_e if (self.interior_e and r.chance(0.5)) else (self.border_e or self.interior_e)
            return [r.choice(pool)]
        if q == "in_cell_index":
            c = r.below(nc)
            return [c, r.below(nv) if miss else r.choice(ref.cells[c])]
        if q == "in_cell_face_index":
            c = r.below(nc)
            return [c, r.below(nf) if miss else r.choice(ref.cell_to_face(c))]
        if q == "common_face":
            c = r.below(nc)
            nb = ref.cell_to_cell(c)
            return [c, r.choice(nb) if (nb and not miss) else r.below(nc)]
        if q == "other_face_side":
            c = r.below(nc)
            return [c, r.below(nf) if miss else r.choice(ref.cell_to_face(c))]
        if q == "face_id":
            f = list(ref.faces[r.below(nf)])
            if miss:
                f[r.below(3)] = r.below(nv)
                if len(set(f)) < 3:
                    f = list(ref.faces[0])
            else:
                r.shuffle(f)
            return f
        if q == "is_face_on_border_v":
            f = list(ref.faces[r.below(nf)])
            r.shuffle(f)
            return f
        if q in ("edge_id", "is_edge_on_border_v"):
            if miss:
                u, v = r.below(nv), r.below(nv)
                return [u, v] if u != v else list(ref.edges[0])
            e = list(ref.edges[r.below(ne)])
            return e if r.chance(0.5) else e[::-1]
        return []

    def propose(self, rng):
        cfg = self.cfg
        names = list(dict.fromkeys(cfg["clients"] + (["dropper"] if cfg["faults_on"] else [])))
        weights = [cfg["clients"].count(n) * (0.4 if n == "boundary" else 1) or cfg["drop_rate"] * 4 for n in names]
        c = self.pick_client(rng, names, weights, cfg["burst"])
        r = self.client_rng(c)
        if c == "dropper" and r.chance(0.3):
            # fault 'bad_index': a query about an element that does not exist.  Its own outcome (None, an exception ...) is not judged;
            # what is: every later answer is still right (a failing query must not leave a half-built cache behind)
            qs = [q for q in sorted(Q) if len(self._gen_args(Rng(1), q)) >= 1]
            q = r.choice(qs)
            args = self._gen_args(r, q)
            args[r.below(len(args))] = 10 ** 6 + r.below(5)
            return {"c": c, "op": "bad_index", "q": q, "args": args}
        if c == "dropper":
            return {"c": c, "op": r.choice(["drop_connectivity", "drop_connectivity", "drop_flip_sort"])}
        if c == "boundary" and r.chance(0.25):
            # other library code that reads the connectivity (attribute computations): a state perturber, never judged itself
            return {"c": c, "op": r.choice(["bg_faces_on_boundary", "bg_cell_volume", "bg_cell_barycenter", "bg_str", "bg_v2v", "bg_v2e", "bg_v2f"])}
        if c == "boundary":
            return {"c": c, "op": r.choice(["enable_boundary", "standalone_boundary", "enable_boundary"] + (["enable_boundary_other"] if self.other is not None else []))}
        qs = [q for q in sorted(Q) if FAMILY[q] == c and q not in cfg["ops_off"]] or [q for q in sorted(Q) if FAMILY[q] == c]
        q = r.choice(qs)
        return {"c": c, "op": q, "args": self._gen_args(r, q)}

    ARGKIND = {**{q: "f" for q in ("f2c", "n_f2c", "f2e", "f2v", "is_face_on_border")}, **{q: "c" for q in ("c2f", "c2c", "c2v", "c2e")},
               **{q: "v" for q in ("v2c", "is_vertex_on_border")}, **{q: "e" for q in ("e2c", "e2f", "is_edge_on_border")},
               "in_cell_index": "cv", "in_cell_face_index": "cf", "common_face": "cc", "other_face_side": "cf", "face_id": "vvv",
               "is_face_on_border_v": "vvv", "edge_id": "vv", "is_edge_on_border_v": "vv"}

    @property
    def sort(self):
        """the neighbourhood-sorting mode in force (a run may switch it, together with a cache drop); helpers built by other checks have only cfg"""
        return getattr(self, "_sort", None) if getattr(self, "_sort", None) is not None else bool(self.cfg["sort"])

    def applicable(self, ev):
        q = ev["op"]
        if q in Q:
            args = ev.get("args", [])
            ref = self.ref
            bound = {"v": ref.nv, "f": len(ref.faces), "c": len(ref.cells), "e": len(ref.edges)}
            kinds = self.ARGKIND.get(q, "")
            if len(kinds) != len(args) or not all(isinstance(a, (int, np.integer)) and 0 <= a < bound[k] for a, k in zip(args, kinds)):
                return False
            if kinds in ("vv", "vvv") and len(set(args)) != len(args):
                return False
            if q == "is_face_on_border_v" and tuple(sorted(args)) not in ref.tri_cells:
                return False
            return True
        return ev["op"] != "enable_boundary_other" or self.other is not None

    def shrink_cfgs(self, cfg):
        """fewer cells (halves, quarters, eighths, single cells), unused vertices dropped; only conforming tetrahedral meshes are proposed"""
        from models.ref_volume import is_conforming_tet_mesh
        from models.surfgen import drop_chunks, compact_with_map
        w = cfg["world"]
        cells, pts = w["cells"], w["points"]
        for lo, hi in drop_chunks(len(cells)):
            nc = cells[:lo] + cells[hi:]
            if not nc:
                continue
            p2, c2, m = compact_with_map(pts, nc)
            if not is_conforming_tet_mesh(p2, c2):
                continue
            tris = {tuple(sorted(c[:q] + c[q + 1:])) for c in c2 for q in range(4)}
            decl = [[m[v] for v in t] for t in w.get("declared", []) if all(v in m for v in t) and tuple(sorted(m[v] for v in t)) in tris]
            yield dict(cfg, world=dict(w, points=p2, cells=c2, declared=decl))

    # ------------------------------------------------------------------ queries
    def _touch_state(self, mesh):
        c = mesh.connectivity
        names = ("_adjC2C", "_adjV2C", "_adjC2F", "_adjF2C", "_adjE2F", "_adjE2C", "_adjC2E", "_edge_id", "_face_id", "_half_edges")
        st = tuple(getattr(c, n, None) is None for n in names)
        st += tuple(getattr(mesh, n, None) is None for n in ("_boundary_faces", "_boundary_edges", "_boundary_vertices"))
        return st

    def _argclass(self, q, args):
        if q in ("e2c", "e2f"):
            b = args[0] in self.border_e
            self.probes["border_edge_ring" if b else "interior_edge_ring"] += 1
            return ("border-edge" if b else "interior-edge") + ("" if self.sort else "/unsorted")
        if q == "face_id" and self.ref.fid.get(tuple(sorted(args))) is None:
            self.probes["miss_query"] += 1
            return "non-face"
        if q in ("edge_id", "is_edge_on_border_v") and self.ref.eid.get(tuple(sorted(args))) is None:
            self.probes["miss_query"] += 1
            return "non-edge"
        return ""

    def run_query(self, mesh, ref, ev, prefix=""):
        q = ev["op"]
        fam, fn, expf, mode = Q[q]
        args = ev["args"]
        out = call(fn, mesh, mesh.connectivity, *args)
        ac = self._argclass(q, args)
        if not out.ok:
            self.exc_violation(prefix + "query-never-fails", q, out, ac, "%s%r raised on valid arguments" % (q, tuple(args)))
        exp = expf(ref, self, *args)
        why = judge(mode, out.value, exp, self.sort)
        if why is not None:
            self.violation(prefix + "agrees-with-cell-list", q, "wrong_value", q, ac, "%s%r = %r; %s" % (q, tuple(args), canon(out.value), why))
        return out.value

    # ------------------------------------------------------------------ boundary surface oracles
    def _check_surface(self, op, surf, b2m_v, m2b_v, ref, check_outward, extra=None):
        """closed; consists of exactly the border faces; outward; maps mutually inverse"""
        sf = [list(f) for f in surf.faces]
        # maps mutually inverse (vertices)
        if any(m2b_v.get(b2m_v[i]) != i for i in b2m_v) or any(b2m_v.get(m2b_v[v]) != v for v in m2b_v):
            self.violation("maps-mutually-inverse", op, "wrong_value", "vertex-maps", "", "m2b_vertex and b2m_vertex are not inverse: %r / %r" % (m2b_v, b2m_v))
        if sorted(b2m_v) != list(range(len(surf.vertices))) or set(m2b_v) != ref.border_vertices():
            self.violation("maps-mutually-inverse", op, "wrong_value", "vertex-maps", "", "vertex maps do not cover exactly the border vertices")
        for i in b2m_v:
            if list(map(float, surf.vertices[i])) != list(map(float, ref.pts[b2m_v[i]])):
                self.violation("maps-mutually-inverse", op, "wrong_value", "vertex-maps", "", "boundary vertex %d is not at the position of volume vertex %d" % (i, b2m_v[i]))
        # exactly the border faces
        got = sorted(tuple(sorted(b2m_v[v] for v in f)) for f in sf)
        exp = sorted(ref.border_tris())
        if got != exp:
            self.violation("exactly-border-faces", op, "wrong_value", "faces", "", "boundary faces (volume ids) %r; border triangles of the cells %r" % (got, exp))
        # closed
        # closed is topological: every (undirected) edge lies in exactly two faces.  Orientation consistency belongs to "outward".
        cnt = {}
        for f in sf:
            for j in range(len(f)):
                k = tuple(sorted((f[j], f[(j + 1) % len(f)])))
                cnt[k] = cnt.get(k, 0) + 1
        if any(len(f) != 3 or len(set(f)) != 3 for f in sf) or any(n != 2 for n in cnt.values()):
            self.violation("boundary-closed", op, "wrong_value", "faces", "", "the extracted boundary surface has border or non-manifold edges: %r" % (sf,))
        # outward
        if check_outward:
            for f in sf:
                vf = [b2m_v[v] for v in f]
                cell = ref.tri_cells[tuple(sorted(vf))][0]
                opp = [v for v in ref.cells[cell] if v not in vf][0]
                if not outward(ref.pts, vf, opp):
                    self.violation("boundary-outward", op, "wrong_value", "orientation", self.cfg["world"]["orient"],
                                   "boundary face %r (volume ids %r) points towards the opposite vertex %d of its cell %d" % (f, vf, opp, cell))

    def _do_enable(self, mesh, ref, op, call_enable=True):
        """call_enable=False: judge the boundary data the volume ALREADY carries (left by an earlier enable_boundary_connectivity())"""
        if call_enable:
            o = call(mesh.enable_boundary_connectivity)
            if not o.ok:
                self.exc_violation("boundary-extraction", op, o)
        bc = mesh.boundary_connectivity
        surf = mesh.boundary_mesh
        if surf is None:
            self.violation("boundary-extraction", op, "wrong_value", "boundary_mesh", "", "boundary_mesh is None after enable_boundary_connectivity()")
        self.probes["boundary_extracted"] += 1
        self._check_surface(op, surf, dict(bc.b2m_vertex), dict(bc.m2b_vertex), ref, True)
        # face and edge maps
        m2b_f, b2m_f, m2b_e, b2m_e = dict(bc.m2b_face), dict(bc.b2m_face), dict(bc.m2b_edge), dict(bc.b2m_edge)
        for name, m2b, b2m, n_b, exp_keys in (("face", m2b_f, b2m_f, len(surf.faces), set(ref.border_faces())),
                                              ("edge", m2b_e, b2m_e, len(surf.edges), {ref.eid[k] for k in ref.border_edge_keys()})):
            if any(not isinstance(q, (int, np.integer)) for q in list(m2b) + list(b2m) + list(m2b.values()) + list(b2m.values())):
                self.violation("maps-mutually-inverse", op, "wrong_value", name + "-maps", "", "m2b_%s / b2m_%s hold entries that are no element indices: %r / %r" % (name, name, m2b, b2m))
            if any(m2b.get(b2m[i]) != i for i in b2m) or any(b2m.get(m2b[x]) != x for x in m2b):
                self.violation("maps-mutually-inverse", op, "wrong_value", name + "-maps", "", "m2b_%s / b2m_%s are not inverse" % (name, name))
            if sorted(b2m) != list(range(n_b)) or set(m2b) != exp_keys:
                self.violation("maps-mutually-inverse", op, "wrong_value", name + "-maps", "",
                               "%s maps do not cover exactly the border %ss: boundary ids %r, volume ids %r, expected volume ids %r" % (name, name, sorted(b2m), sorted(m2b), sorted(exp_keys)))
        b2m_v = dict(bc.b2m_vertex)
        for i, f in enumerate(surf.faces):
            if tuple(sorted(b2m_v[v] for v in f)) != tuple(sorted(ref.faces[b2m_f[i]])):
                self.violation("maps-mutually-inverse", op, "wrong_value", "face-maps", "", "boundary face %d does not map to the volume face on the same vertices" % i)
        for i, e in enumerate(surf.edges):
            if tuple(sorted(b2m_v[v] for v in e)) != tuple(sorted(ref.edges[b2m_e[i]])):
                self.violation("maps-mutually-inverse", op, "wrong_value", "edge-maps", "", "boundary edge %d does not map to the volume edge on the same vertices" % i)

    def _do_standalone(self, mesh, ref, op):
        o = call(self.M.processing.border.extract_boundary_of_volume, mesh)
        if not o.ok:
            self.exc_violation("boundary-extraction", op, o)
        surf, m2b, b2m = o.value
        self.probes["standalone_extracted"] += 1
        # explicitly declared triangles keep the caller's winding in the standalone extractor: outwardness is then the caller's business
        positive = self.cfg["world"]["orient"] == "positive" and not self.cfg["world"].get("declared")
        if positive:
            self.probes["standalone_outward_checked"] += 1
        self._check_surface(op, surf, dict(b2m), dict(m2b), ref, positive)

    # ------------------------------------------------------------------ step
    def step(self, ev):
        self.calls += 1
        op = ev["op"]
        mesh = self.mesh
        if op == "bad_index":
            fam, fn, expf, mode = Q[ev["q"]]
            o = call(fn, mesh, mesh.connectivity, *ev["args"])
            self.faults["bad_index"] += 1
            self.dropped = self.dropped  # (caches may or may not have been built by the failing call)
            return o.brief()
        if op.startswith("bg_"):
            M = self.M
            fn = {"bg_faces_on_boundary": lambda: M.attributes.cell_faces_on_boundary(mesh, persistent=False),
                  "bg_cell_volume": lambda: M.attributes.cell_volume(mesh, persistent=False),
                  "bg_cell_barycenter": lambda: M.attributes.cell_barycenter(mesh, persistent=False),
                  "bg_v2v": lambda: mesh.connectivity.vertex_to_vertices(0),   # the vertex / edge / face level tables of the same object
                  "bg_v2e": lambda: mesh.connectivity.vertex_to_edges(0),      # (inherited from the surface / polyline connectivity)
                  "bg_v2f": lambda: mesh.connectivity.vertex_to_faces(0),
                  "bg_str": lambda: str(mesh)}[op]
            o = call(fn)
            self.probes["background_library_call"] += 1
            return o.brief()
        if op == "drop_flip_sort":
            self._sort = not self.sort
            self.M.config.sort_neighborhoods = self._sort
            self.probes["sort_switched"] += 1
        if op in ("drop_connectivity", "drop_flip_sort"):
            o = call(mesh.connectivity.clear)
            if not o.ok:
                self.exc_violation("cache-drop", op, o)
            self.dropped = True
            return "dropped"
        if op == "enable_boundary":
            self._do_enable(mesh, self.ref, op)
            self.judged.append(ev)
            self.fams.add("boundary")
            return "ok"
        if op == "standalone_boundary":
            self._do_standalone(mesh, self.ref, op)
            self.judged.append(ev)
            self.fams.add("boundary")
            return "ok"
        if op == "enable_boundary_other":
            # the boundary of ANOTHER volume is extracted in between: nothing of it may show in this mesh's maps (and the reverse)
            self.probes["second_volume"] += 1
            save_orient = self.cfg["world"]["orient"]
            self._do_enable(self.other, self.ref_other, op)
            self.fams.add("boundary")
            return "ok"
        before = self._touch_state(mesh)
        val = self.run_query(mesh, self.ref, ev)
        after = self._touch_state(mesh)
        if before != after:
            self.first_touch.append(FAMILY[op][0] + ":" + "".join("1" if (b and not a) else "0" for b, a in zip(before, after)))
            if self.dropped:
                self.faults["cache_drop"] += 1
                self.probes["query_after_drop"] += 1
                self.dropped = False
        self.judged.append(ev)
        self.fams.add(FAMILY[op])
        return canon(val)

    def _run_any(self, mesh, ref, ev, prefix):
        if ev["op"] == "enable_boundary":
            self._do_enable(mesh, ref, prefix + ev["op"])
        elif ev["op"] == "standalone_boundary":
            self._do_standalone(mesh, ref, prefix + ev["op"])
        else:
            self.run_query(mesh, ref, ev, prefix)

    def finish(self):
        if not self.judged:
            return
        cfg = self.cfg
        # the independent order is a per-event hash order: removing events (minimisation) keeps the relative order of the others
        order = sorted(self.judged, key=lambda e: h64(cfg["seed"], "reorder", e["uid"]))
        fresh = build_mesh(cfg["world"])
        ref = self._ref_for(fresh)
        self.probes["reordered_pass"] += 1
        for ev in order:
            self._run_any(fresh, ref, ev, "order-independence/")
        seen, cands = set(), []
        for ev in self.judged:
            if ev["op"] not in seen:
                seen.add(ev["op"])
                cands.append(ev)
        cands.sort(key=lambda e: h64(cfg["seed"], "fresh", e["uid"]))
        for ev in cands[:cfg["n_fresh"]]:
            m = build_mesh(cfg["world"])
            self.probes["fresh_single_query"] += 1
            self._run_any(m, self._ref_for(m), ev, "fresh-mesh/")

    def nontrivial(self):
        return len(self.judged) >= 3 and len(self.fams) >= 2

    def class_key(self):
        w = self.cfg["world"]
        return "V%d C%d iv%d ie%d %s s%d|%s" % (len(w["points"]), len(w["cells"]), self.n_int_v, len(self.interior_e), w["orient"],
                                                int(self.cfg["sort"]), ">".join(self.first_touch[:6]))


SIM = C03
