"""C11 - k-d tree: queries are exact and construction always terminates.

World: ONE point set (explicit in cfg["world"], so a replay file is self-contained) and up to three
KDTree instances built over it.  Clients: a *builder* (constructs / re-builds trees, each build under a
deterministic step budget - sim/budget.py), 2-4 *query clients* sharing the trees (query / query_radius /
re-inspection of the leaves) and, in faulted shared-stream runs, a *noise* client that consumes the global
numpy PRNG between two builds (fault kind prng_handover).  In faulted runs up to 3 pivot draws per build are
replaced by an extreme outcome of the very draw the library made (fault kind forced_pivot).

Oracle: brute force over the same float64 data with the library's own distance formula
(sqrt(dot(q-p, q-p)), one row at a time).  Each oracle clause quotes the sentence of the statement it
implements (CLAUSES below); nothing else is checked.
"""
import os

import numpy as np

from sim import budget as _budget
from sim.engine import Sim, SimBudget, call, reseed_globals

CLAUSES = {
    "construction-terminates": "building the tree finishes",
    "exactly-one-leaf": "every input point is stored in exactly one leaf",
    "knn-count": "the k-nearest query returns exactly min(k, n) indices",
    "knn-smallest": "whose distances are the k smallest distances to the query point",
    "knn-order": "in non-decreasing order",
    "radius-exact": "the radius query returns exactly the points within the radius",
}

STRATEGIES = ["balanced", "fast", "random"]
EPS = 2.0 ** -52
ULPS = 4.0            # don't-care band of the radius query and comparison slack on distances
COORD_MAX = 1.0e6     # finite moderate coordinates only (ASSUMPTIONS)
N_SLOTS = 3
SIZES = {"tiny": (1, 6), "small": (7, 30), "medium": (31, 100), "large": (101, 300), "huge": (301, 3000)}


# ----------------------------------------------------------------------------------------
# budgets (steps = function entries + loop back-edges inside mouette; see sim/budget.py)
# ----------------------------------------------------------------------------------------
STEPS_PER_SPLIT = 25  # measured on the pinned tree: exactly 21 steps per split (+19 per build), whatever n


def build_budget(n, d, leaf, strategy, n_distinct, n_repeated, maxmult):
    """Step budget of one build = 5000 + 25 * (budget in *splits*).  Measured: a build costs exactly
    21 steps per split + 19, whatever n (numpy does the per-point work), so liveness is about the NUMBER OF
    SPLITS.  A split is *useful* if both sides are non-empty, else *useless* (pivot = maximum on the axis).
    Identical points always travel together, so a build makes < n_distinct useful splits; a repaired build
    might in addition cut groups of identical points by index: < n more (the 10*n term).

    balanced (deterministic): d useless splits in a row on one set = it never terminates; a terminating
    build therefore makes <= d-1 useless splits per useful one, plus <= d per final set (a repaired build
    may need a full turn of the axes to see that a set cannot be split): <= 2*d*n_distinct.  Budget: 10x.

    fast / random: the number of useless splits is random.  Under 'random', for a set of s > leaf points whose
    coordinate-wise maximum is taken by c of them (c <= c* = min(leaf, maxmult)), a full turn of the d axes is
    useless with probability <= exp(-(s-c)/s), so the expected number of splits spent on that set is
    <= 1 + d*(2 + s/(s-c)).  s/(s-c) <= 2 whenever c = 1 or s >= 2*leaf; otherwise (the maximum is a repeated
    point and s < 2*leaf) it is <= Gc = (leaf+1)/(leaf+1-c*), and a repeated point plays that role for at most
    leaf-1 nested sets.  Hence, with m = n_distinct and heavy = min(m-1, (leaf-1)*n_repeated),
        E[splits] <= (m-1)*(1 + 4*d) + d*heavy*max(0, Gc-2).
    Budget: 4x that bound on the mean + 50*d*Gc splits for the tail of a single waiting time: the probability
    that a terminating 'random' build exceeds it is < 1e-13 for every admissible point set.  Measured margins are
    in the report / evidence (self-test: props.c11 budget_use): >= 16x the worst of > 10^5 terminating builds of
    generated worlds; on hand-made adversarial worlds (groups of `leaf` identical points plus one point that
    differs on a single axis) >= 7x the worst of 400 seeds and >= 14x the mean.
    'fast' equals 'balanced' on sets of <= 50 points and samples 50 candidates above; it gets the same budget
    as 'random' (no proof for sets > 50: an alarm there means an astronomically unlikely termination)."""
    m = max(1, n_distinct)
    if strategy == "balanced":
        splits = 200 + 10 * n + 20 * d * m
    else:
        cstar = min(leaf, max(1, maxmult))
        Gc = (leaf + 1.0) / (leaf + 1.0 - cstar)
        heavy = min(m - 1, (leaf - 1) * n_repeated)
        mean_bound = (m - 1) * (1 + 4 * d) + d * heavy * max(0.0, Gc - 2.0)
        splits = 200 + 10 * n + 4 * mean_bound + 50 * d * Gc
    return int(5000 + STEPS_PER_SPLIT * splits)


def query_budget(n, n_nodes):
    """A query visits each node and each point at most once; measured worst case (k = n) 28 steps per point,
    theoretical < 80 (heap comparisons are mouette code).  1000 per point and node: safety net only."""
    return 5000 + 1000 * (n + n_nodes)


# ----------------------------------------------------------------------------------------
# world generator (point sets)
# ----------------------------------------------------------------------------------------
def _clean(x, dec):
    x = round(float(x), dec)
    if x > COORD_MAX:
        x = COORD_MAX
    if x < -COORD_MAX:
        x = -COORD_MAX
    return x + 0.0  # no -0.0 in files


def gen_world(rng, tier):
    d = rng.wchoice([1, 2, 3, 4, 5], [2, 4, 5, 2, 2])
    if tier == "thorough":
        cls = rng.wchoice(["tiny", "small", "medium", "large", "huge"], [3, 5, 4, 2, 0.25])
    else:
        cls = rng.wchoice(["tiny", "small", "medium", "large"], [3, 5, 3, 1])
    lo, hi = SIZES[cls]
    n = rng.randint(lo, hi)
    S = rng.choice([1.0, 1.0, 10.0, 1000.0, 1.0e6])
    dec = {1.0: 3, 10.0: 2, 1000.0: 1, 1.0e6: 0}[S]
    kind = rng.wchoice(["uniform", "clustered", "collinear", "lattice", "duplicates", "identical", "degenerate",
                        "corners"], [5, 4, 3, 3, 4, 1, 3, 2])
    dtype = "float"
    U = lambda: S * (2.0 * rng.random() - 1.0)
    pts = []
    if kind == "uniform":
        pts = [[U() for _ in range(d)] for _ in range(n)]
    elif kind == "clustered":
        centres = [[0.8 * U() for _ in range(d)] for _ in range(rng.randint(1, 4))]
        sd = S * rng.choice([1e-3, 1e-2, 1e-1])
        for _ in range(n):
            c = rng.choice(centres)
            pts.append([c[a] + sd * rng.gauss() for a in range(d)])
    elif kind == "collinear":
        a0 = [0.3 * U() for _ in range(d)]
        if rng.chance(0.4):  # along one axis: every other axis is constant
            dirv = [0] * d
            dirv[rng.below(d)] = 1
        else:
            dirv = [rng.randint(-2, 2) for _ in range(d)]
            if not any(dirv):
                dirv[rng.below(d)] = 1
        ext = S * rng.choice([0.03, 0.3])
        integer_t = rng.chance(0.5)  # integer parameters repeat -> exact duplicates on the line
        m = max(2, rng.choice([n // 2, n, 2 * n]))
        for _ in range(n):
            t = rng.below(m) if integer_t else rng.uniform(0, m)
            pts.append([a0[a] + (t / m) * ext * dirv[a] for a in range(d)])
    elif kind == "lattice":
        g = rng.randint(2, 6)
        if rng.chance(0.35):
            dtype = "int"
            h, off = 1, rng.choice([0, -3, 1000])
            dec = 0
        else:
            h, off = rng.choice([1.0, 0.5, S / 4.0]), rng.choice([0.0, -S / 2.0])
        total = g ** d
        if total >= n and rng.chance(0.6):  # distinct nodes
            ids = rng.sample(range(total), n) if total <= 8000 else [rng.below(total) for _ in range(n)]
        else:
            ids = [rng.below(total) for _ in range(n)]  # with replacement: exact duplicates
        for i in ids:
            p = []
            for _ in range(d):
                p.append(off + h * (i % g))
                i //= g
            pts.append(p)
    elif kind == "duplicates":
        # multiplicity chosen relative to the leaf sizes in use (1..12): small groups, exactly-a-leaf groups,
        # groups larger than any leaf
        t = rng.wchoice([2, 3, rng.randint(2, 12), 13, max(2, n // 2)], [4, 2, 4, 1, 1])
        m = max(1, -(-n // t))
        base = [[U() for _ in range(d)] for _ in range(m)]
        if rng.chance(0.5):
            pts = [list(base[i % m]) for i in range(n)]
        else:
            pts = [list(base[rng.below(m)]) for _ in range(n)]
    elif kind == "identical":
        p = [U() for _ in range(d)]
        pts = [list(p) for _ in range(n)]
    elif kind == "degenerate":
        pts = [[U() for _ in range(d)] for _ in range(n)]
        k = rng.randint(1, d)  # k == d: every axis constant -> all identical
        axes = rng.sample(range(d), k)
        const = {a: rng.choice([0.0, U(), S]) for a in axes}
        for p in pts:
            for a in axes:
                p[a] = const[a]
    else:  # corners: 2-3 values per axis -> massive coordinate ties, median == max on many axes
        vals = [[U() for _ in range(rng.randint(2, 3))] for _ in range(d)]
        pts = [[rng.choice(vals[a]) for a in range(d)] for _ in range(n)]
    mods = []
    if n >= 3 and kind not in ("identical",) and rng.chance(0.2):  # deliberate exact duplicates
        mods.append("dup")
        for _ in range(max(1, int(n * rng.choice([0.05, 0.2, 0.5])))):
            pts[rng.below(n)] = list(pts[rng.below(n)])
    if d > 1 and rng.chance(0.1):
        mods.append("const_axis")
        a, c = rng.below(d), rng.choice([0.0, S, U()])
        for p in pts:
            p[a] = c
    if rng.chance(0.5):
        rng.shuffle(pts)
    elif rng.chance(0.3):
        pts.sort()
    if dtype == "int":
        pts = [[int(round(x)) for x in p] for p in pts]
    else:
        pts = [[_clean(x, dec) for x in p] for p in pts]
    return {"gen": kind, "mods": mods, "d": d, "scale": S, "dtype": dtype, "pts": pts}


def world_array(world):
    dt = np.int64 if world.get("dtype") == "int" else np.float64
    return np.array(world["pts"], dtype=dt).reshape(len(world["pts"]), world["d"])


def max_multiplicity(P):
    if len(P) == 0:
        return 0
    _, counts = np.unique(P, axis=0, return_counts=True)
    return int(counts.max())


def dup_class(P, leaf):
    """coarse, deterministic description of the duplicate structure relative to a leaf size"""
    n = len(P)
    if n == 1:
        return "single-point"
    mm = max_multiplicity(P)
    if mm == n:
        return "all-identical"
    if mm > leaf:
        return "duplicates>leaf"
    if mm > 1:
        return "duplicates<=leaf"
    for a in range(P.shape[1]):
        if len(np.unique(P[:, a])) == 1:
            return "distinct+constant-axis"
    for a in range(P.shape[1]):
        if len(np.unique(P[:, a])) < n:
            return "distinct+coordinate-ties"
    return "distinct-coordinates"


# ----------------------------------------------------------------------------------------
# reference: brute-force distances with the library's formula
# ----------------------------------------------------------------------------------------
def brute_distances(P, q):
    """mouette: distance(A=points[idx], B=pt) = norm(B-A) = sqrt(dot(x.flatten(), x.flatten()))"""
    q = np.asarray(q)
    out = np.empty(len(P), dtype=np.float64)
    for i in range(len(P)):
        v = (q - P[i]).flatten()
        out[i] = np.sqrt(np.dot(v, v))
    return out


def _tol(a, b):
    return ULPS * EPS * max(abs(a), abs(b))


# ----------------------------------------------------------------------------------------
# the PRNG seam of the builder: counts the pivot draws, replaces the planned ones (forced_pivot)
# ----------------------------------------------------------------------------------------
class PivotDraws:
    """Stands in for numpy.random.choice during ONE build.  Every call is forwarded to the real function
    (so the generator advances exactly as it would); the draws listed in `plan` then have their outcome
    replaced by an extreme outcome *of the same draw*: same shape, same dtype, values taken from the
    candidate array at distinct positions when replace=False - i.e. something the real generator returns
    with positive probability."""

    def __init__(self, real, plan):
        self.real = real
        self.plan = plan
        self.draws = 0
        self.replaced = []

    def __call__(self, a, size=None, replace=True, p=None):
        out = self.real(a, size, replace, p)
        j = self.draws
        self.draws += 1
        mode = self.plan.get(j)
        if mode is None or p is not None:
            return out
        arr = np.asarray(a)
        if arr.ndim != 1 or arr.size == 0 or not isinstance(size, (int, np.integer)):
            return out
        m = int(size)
        if m < 1 or (not replace and m > arr.size) or np.shape(out) != (m,):
            return out
        order = np.argsort(arr, kind="stable")
        if mode == "min":
            pos = order
        elif mode == "max":
            pos = order[::-1]
        else:  # "dup": the most frequent value first (smallest such value on ties), then the others
            vals, counts = np.unique(arr, return_counts=True)
            modal = vals[int(np.argmax(counts))]
            pos = np.concatenate([np.nonzero(arr == modal)[0], np.nonzero(arr != modal)[0]])
        if replace:
            pos = np.resize(pos[:1], m)  # the same extreme position every time is a legal outcome
        else:
            pos = pos[:m]
        forced = arr[pos]
        if forced.shape != out.shape or forced.dtype != out.dtype:
            return out
        self.replaced.append([j, mode])
        return forced


# ----------------------------------------------------------------------------------------
class C11(Sim):
    PROP = "C11"
    RULE = ("one run = one explicit point set (n, d, duplicate structure from the seed) + up to 3 KDTree instances "
            "built over it by a builder client under a deterministic step budget, queried by 2-4 seeded query clients "
            "(query / query_radius / leaf re-inspection) under a bursty seeded scheduler; distinct = distinct "
            "(n class, d, generator, duplicate structure, leaf size, strategy multiset, forced-pivot pattern, "
            "interleaving hash); non-trivial = at least one build judged (returned or budget exceeded) and, when it "
            "returned, at least one query compared with brute force")
    FAULT_KINDS = ["prng_handover", "forced_pivot"]
    PROBES = ["leaf_smaller_than_k", "empty_side_after_split", "all_equal_on_axis", "k>=n", "radius_zero",
              "query_on_data_point", "duplicates", "tie_at_kth", "radius_equals_data_distance",
              "radius_hair_off_data_distance", "rebuild", "outside_query", "int_points", "caller_reuses_its_array", "second_tree_in_between", "caller_query_buffer", "earlier_answer_kept"]
    QUICK_RUNS = 2500
    THOROUGH_RUNS = 200000
    BLOCK = 20
    ASSUMPTIONS = [
        "a tree answers for the points as they were when it was built: the caller may overwrite the array it passed afterwards (the constructor copies its input)",
        "coordinates are finite and moderate: |x| <= 1e6, data rounded to <= 3 decimals, query points to <= 7 "
        "(squared distances neither overflow nor underflow nor lose all precision); no NaN/inf",
        "n >= 1, 1 <= d <= 5, 1 <= max_leaf_size <= 12, k >= 1 (python int), r >= 0 finite (python float)",
        "point arrays are float64 or int64 ndarrays of shape (n, d); query points are Vec or float64 ndarray of size d",
        "bounded liveness: 'finishes' means within build_budget(n, d, leaf, strategy, #distinct points, #repeated "
        "points, largest group of identical points) interpreter steps (function entries + loop back-edges inside "
        "mouette): >= 10x the deterministic worst case (balanced), >= 4x a proven bound on the mean and >= 10x every "
        "measured terminating build (fast/random)",
        "distances are compared with a slack of 4 ulp; radius membership is not judged inside |d_i - r| <= 4 ulp "
        "(except d_i == 0, which no rounding can produce from distinct finite points)",
    ]
    COMPONENTS = {"real": ["mouette.spatial.kdtree", "mouette.geometry.aabb (box-point distance)",
                           "mouette.geometry.geometry (distance, norm)", "mouette.utils.priority_queue", "numpy"],
                  "stub": ["seeding of the global numpy PRNG (per call, or once per run in shared_stream mode)",
                           "numpy.random.choice is wrapped during a build to count pivot draws; in faulted runs up "
                           "to 3 pivot draws per build are replaced by an extreme outcome of the same draw",
                           "step counter (sys.monitoring local events on mouette's code objects)"]}

    # ---------------------------------------------------------------- config / world
    def gen_config(self, rng, tier):
        world = gen_world(rng.fork("world"), tier)
        P = world_array(world)
        mm = max_multiplicity(P)
        leaf = rng.wchoice(list(range(1, 13)), [5, 4, 3, 2, 3, 1, 1, 1, 1, 2, 1, 2])
        if mm > leaf and mm <= 12 and rng.chance(0.5):
            leaf = rng.randint(mm, 12)  # keep many duplicate-rich worlds buildable whatever the split rule
        return {"world": world, "leaf": leaf, "strategy": rng.choice(STRATEGIES),
                "nq": rng.randint(2, 4), "max_steps": rng.randint(5, 28),
                "burst": rng.choice([0.2, 0.5, 0.8]),
                "rebuild_rate": rng.choice([0.0, 0.15, 0.4]),
                "check_rate": rng.choice([0.05, 0.2]),
                "max_forced": rng.choice([0, 1, 2, 3, 3]),
                # takes effect in faulted runs only; fault-free runs reseed before every call whatever the mode
                "prng_mode": "shared_stream" if rng.chance(0.4) else "per_call"}

    def shrink_cfgs(self, cfg):
        """fewer points: drop halves, quarters, eighths, then single points"""
        pts = cfg["world"]["pts"]
        n = len(pts)

        def without(lo, hi):
            c = dict(cfg)
            w = dict(cfg["world"])
            w["pts"] = pts[:lo] + pts[hi:]
            c["world"] = w
            return c

        if n <= 1:
            return
        seen = set()
        for parts in (2, 4, 8):
            if n >= parts:
                step = n // parts
                for i in range(parts):
                    lo, hi = i * step, (n if i == parts - 1 else (i + 1) * step)
                    if (lo, hi) not in seen and hi - lo < n:
                        seen.add((lo, hi))
                        yield without(lo, hi)
        if n <= 64:
            for i in range(n):
                if (i, i + 1) not in seen:
                    yield without(i, i + 1)

    def start(self, cfg):
        import mouette  # noqa: F401
        from mouette.spatial import KDTree
        self.KDTree = KDTree
        self.Vec = mouette.Vec
        w = cfg["world"]
        self.P0 = world_array(w)  # the oracle's copy; the library always gets a fresh copy
        self.P0.setflags(write=False)
        self.n, self.d = self.P0.shape
        if self.n < 1 or float(np.max(np.abs(self.P0))) > COORD_MAX or not np.all(np.isfinite(self.P0)):
            raise ValueError("world outside the domain of the check")
        self.lo = self.P0.min(axis=0).astype(float)
        self.hi = self.P0.max(axis=0).astype(float)
        self.diag = float(np.sqrt(np.sum((self.hi - self.lo) ** 2)))
        _, counts = np.unique(self.P0, axis=0, return_counts=True)
        self.maxmult = int(counts.max())          # largest group of identical points
        self.n_distinct = int(len(counts))        # number of distinct points
        self.n_repeated = int(np.sum(counts >= 2))  # number of distinct points that occur more than once
        self.const_axes = [a for a in range(self.d) if self.n > 1 and self.lo[a] == self.hi[a]]
        self.trees = [None] * N_SLOTS
        self.shared = cfg.get("prng_mode") == "shared_stream" and bool(cfg.get("faults_on"))
        self.reseed_self = cfg.get("prng_mode") == "shared_stream" and not cfg.get("faults_on")
        self.prng_consumers = 0
        self.budget_use = []  # (op, strategy, steps used, budget) of every call that returned - for the margin self-test
        self.builds_judged = 0
        self.queries_judged = 0
        self.strategies_used = set()
        self.forced_pattern = set()
        if self.maxmult > 1:
            self.probes["duplicates"] += 1
        if w.get("dtype") == "int":
            self.probes["int_points"] += 1
        self._hold = _budget.hold()
        self._hold.__enter__()

    def close(self):
        h = getattr(self, "_hold", None)
        if h is not None:
            self._hold = None
            h.__exit__(None, None, None)

    # ---------------------------------------------------------------- proposing
    def _propose_build(self, r, first):
        cfg = self.cfg
        if first:
            t, leaf, strat = 0, cfg["leaf"], cfg["strategy"]
        else:
            t = r.below(N_SLOTS)
            used = [x["strategy"] for x in self.trees if x is not None]
            others = [s for s in STRATEGIES if s not in used] or STRATEGIES
            strat = r.choice(others)
            leaf = cfg["leaf"] if r.chance(0.5) else r.randint(1, 12)
        # 'scribble': once the tree is built, the caller re-uses the array it passed as a buffer (overwrites it in place).  The tree was
        # built for the points as they were: its answers are still judged against those
        ev = {"c": "builder", "op": "build", "t": t, "leaf": leaf, "strategy": strat, "forced": [], "scribble": r.chance(0.3), "upper": r.chance(0.15)}
        if cfg["faults_on"] and strat != "balanced" and cfg["max_forced"] > 0 and r.chance(0.8):
            k = r.randint(1, cfg["max_forced"])
            if r.chance(0.45):  # a run of the same extreme on consecutive draws from the root: the nastiest prefix
                mode = r.choice(["max", "max", "min", "dup"])
                j0 = r.choice([0, 0, 1, 2])
                ev["forced"] = [[j0 + i, mode] for i in range(k)]
            else:
                js = sorted(r.sample(range(8), k))
                ev["forced"] = [[j, r.choice(["min", "max", "dup"])] for j in js]
        return ev

    def _gen_point(self, r):
        P, n, d = self.P0, self.n, self.d
        span = self.hi - self.lo
        kind = r.wchoice(["on", "inside", "near", "outside", "mid", "one_axis_out"], [3, 3, 2, 2, 2, 1])
        if kind == "on":
            p = [float(x) for x in P[r.below(n)]]
        elif kind == "inside":
            p = [round(float(self.lo[a] + r.random() * span[a]), 4) for a in range(d)]
        elif kind == "near":
            i = r.below(n)
            h = 1e-3 * (self.diag / max(1, n) + 1e-3)
            p = [round(float(P[i, a]) + h * r.gauss(), 7) for a in range(d)]
        elif kind == "outside":
            p = []
            for a in range(d):
                side = r.choice([-1.0, 1.0])
                base = self.hi[a] if side > 0 else self.lo[a]
                p.append(round(float(base + side * (span[a] + 1.0) * r.uniform(0.1, 3.0)), 4))
        elif kind == "mid":
            i, j = r.below(n), r.below(n)
            p = [float((float(P[i, a]) + float(P[j, a])) / 2.0) for a in range(d)]
        else:
            p = [round(float(self.lo[a] + r.random() * span[a]), 4) for a in range(d)]
            a = r.below(d)
            p[a] = round(float(self.hi[a] + (span[a] + 1.0) * r.uniform(0.5, 2.0)), 4)
        return kind, [x + 0.0 for x in p]

    def propose(self, rng):
        cfg = self.cfg
        built = [t for t in range(N_SLOTS) if self.trees[t] is not None]
        if not built:
            return self._propose_build(self.client_rng("builder"), True)
        names = ["builder"] + ["q%d" % i for i in range(cfg["nq"])]
        weights = [cfg["rebuild_rate"] * cfg["nq"] + 1e-9] + [1.0] * cfg["nq"]
        if self.shared:
            names.append("noise")
            weights.append(0.6)
        c = self.pick_client(rng, names, weights, cfg["burst"])
        r = self.client_rng(c)
        if c == "builder":
            if r.chance(0.35):
                # ANOTHER tree, on another cloud, is built in the same process between two uses of this run's trees (cross-object history):
                # nothing of it may show in the trees under test
                m = r.randint(1, 60)
                pts = [[round(3.0 * r.gauss(), 4) + 40.0 for _ in range(self.d)] for _ in range(m)]
                return {"c": c, "op": "build_other", "pts": pts, "leaf": r.randint(1, 8), "strategy": r.choice(STRATEGIES)}
            return self._propose_build(r, False)
        if c == "noise":
            return {"c": c, "op": "prng_draw", "m": r.randint(1, 7)}
        t = r.choice(built)
        tr = self.trees[t]
        if r.chance(cfg["check_rate"]):
            return {"c": c, "op": "leaves", "t": t}
        pk, pt = self._gen_point(r)
        as_ = r.choice(["vec", "vec", "nd", "buf", "buf"])
        n, L = self.n, tr["leaf"]
        if r.chance(0.55):
            ks = [1, 1, L - 1, L, L + 1, 2 * L + 1, n - 1, n, n + 3, r.randint(1, max(1, n)), r.randint(1, 6)]
            k = max(1, r.choice(ks))
            return {"c": c, "op": "knn", "t": t, "pt": pt, "k": int(k), "as": as_, "pk": pk}
        D = brute_distances(self.P0, np.array(pt, dtype=np.float64))
        rk = r.wchoice(["zero", "tiny", "typical", "huge", "data", "data+", "data-"], [2, 2, 4, 1, 2, 1.5, 1.5])
        if rk == "zero":
            rad = 0.0
        elif rk == "tiny":
            pos = D[D > 0]
            rad = float(pos.min()) / 2.0 if len(pos) and r.chance(0.5) else 1e-9
        elif rk == "typical":
            base = float(D[r.below(n)])
            if base == 0.0:
                base = self.diag if self.diag > 0 else 1.0
            rad = float(round(base * r.uniform(0.3, 1.6), 6))
        elif rk == "huge":
            rad = float(round(10.0 * (float(D.max()) + self.diag + 1.0), 3))
        elif rk == "data":
            rad = float(D[r.below(n)])  # exactly a data distance (as the library computes it)
        else:
            # a hair (2^-40 relative = 1024x the don't-care band) outside / inside the sphere through a data point:
            # that point is then clearly in, resp. clearly out
            rad = float(D[r.below(n)]) * (1.0 + 2.0 ** -40 if rk == "data+" else 1.0 - 2.0 ** -40)
        return {"c": c, "op": "radius", "t": t, "pt": pt, "r": rad, "as": as_, "pk": pk, "rk": rk}

    # ---------------------------------------------------------------- guards for replay
    def applicable(self, ev):
        op = ev["op"]
        if op in ("knn", "radius", "leaves"):
            return 0 <= ev["t"] < N_SLOTS and self.trees[ev["t"]] is not None and \
                (op == "leaves" or len(ev["pt"]) == self.d)
        if op == "prng_draw":
            return self.shared
        if op == "build_other":
            return bool(ev["pts"]) and len(ev["pts"][0]) == self.d
        return True

    # ---------------------------------------------------------------- oracles
    def _leaf_arrays(self, tree):
        leaves = []
        for nd in tree.nodes:
            if isinstance(nd, self.KDTree.Leaf):
                leaves.append(np.asarray(nd.points).reshape(-1))
        return leaves

    def _check_leaves(self, slot, when):
        """'every input point is stored in exactly one leaf' - read from tree.nodes"""
        tr = self.trees[slot]
        tree, n = tr["tree"], self.n
        leaves = self._leaf_arrays(tree)
        ac = tr["dup"]
        count = np.zeros(n, dtype=np.int64)
        for arr in leaves:
            if arr.size == 0:
                continue
            if arr.dtype.kind not in "iu" or arr.min() < 0 or arr.max() >= n:
                self.violation("exactly-one-leaf", when, "wrong_value", "nodes", ac,
                               "a leaf holds %r which are not indices of the %d input points" % (arr.tolist()[:20], n))
            np.add.at(count, arr, 1)
        if not np.all(count == 1):
            missing = np.nonzero(count == 0)[0].tolist()
            multi = np.nonzero(count > 1)[0].tolist()
            self.violation("exactly-one-leaf", when, "wrong_value", "nodes", ac,
                           "n=%d leaf=%d strategy=%s: points in no leaf %r, points in several leaves %r" % (
                               n, tr["leaf"], tr["strategy"], missing[:20], multi[:20]))
        return len(leaves)

    def _as_indices(self, value, clause, op, ac):
        """the answer must be a sequence of integer indices into the point array"""
        try:
            seq = list(value)
        except TypeError:
            self.violation(clause, op, "wrong_value", op, ac, "answer %r is not a sequence of indices" % (value,))
        out = []
        for x in seq:
            if isinstance(x, (bool, np.bool_)) or not isinstance(x, (int, np.integer)):
                self.violation(clause, op, "wrong_value", op, ac, "answer contains %r which is not an integer index" % (x,))
            out.append(int(x))
        return out

    def _mkpt(self, ev):
        if ev.get("as") == "buf":
            # ONE float64 array owned by the caller, overwritten in place before every query that uses it
            if getattr(self, "_qbuf", None) is None or self._qbuf.shape != (len(ev["pt"]),):
                self._qbuf = np.zeros(len(ev["pt"]), dtype=np.float64)
            self._qbuf[:] = ev["pt"]
            self.probes["caller_query_buffer"] += 1
            return self._qbuf
        arr = np.array(ev["pt"], dtype=np.float64)
        return self.Vec(arr) if ev.get("as", "vec") == "vec" else arr

    # ---------------------------------------------------------------- step
    def step(self, ev):
        self.calls += 1
        if self.reseed_self:
            reseed_globals(self.cfg["seed"], ev["uid"])
        op = ev["op"]
        if op == "build":
            return self._step_build(ev)
        if op == "knn":
            return self._step_knn(ev)
        if op == "radius":
            return self._step_radius(ev)
        if op == "leaves":
            return self._check_leaves(ev["t"], "leaves")
        if op == "build_other":
            P = np.array(ev["pts"], dtype=np.float64)
            nd_ = len({tuple(p) for p in ev["pts"]})
            limit = build_budget(len(P), self.d, int(ev["leaf"]), ev["strategy"], nd_, 0, 1 + len(P) - nd_)
            try:
                with _budget.StepBudget(limit) as b:
                    out = call(self.KDTree, P, max_leaf_size=int(ev["leaf"]), strategy=ev["strategy"])
            except SimBudget:
                self.violation("construction-terminates", "build_other", "budget_exceeded", "spatial.kdtree:__init__", "other-cloud",
                               "KDTree(%d other points, leaf %d, %s) still running after %d steps" % (len(P), ev["leaf"], ev["strategy"], limit))
            if not out.ok:
                self.exc_violation("construction-terminates", "build_other", out, "other-cloud", "a second, unrelated tree")
            self.other_tree = out.value  # kept alive, like a caller would
            self.probes["second_tree_in_between"] += 1
            # every tree of this run still stores exactly its own points
            for t in range(N_SLOTS):
                if self.trees[t] is not None:
                    self._check_leaves(t, "after-build_other")
            return len(P)
        if op == "prng_draw":
            out = call(self.Vec.random, int(ev["m"]))
            if out.ok:
                self.prng_consumers += 1
            return "drawn"
        raise ValueError("unknown op %r" % (op,))

    def _step_build(self, ev):
        n, d = self.n, self.d
        leaf, strat, slot = int(ev["leaf"]), ev["strategy"], ev["t"]
        dup = dup_class(self.P0, leaf)
        plan = {int(j): m for j, m in ev.get("forced", [])} if self.cfg.get("faults_on") else {}
        limit = build_budget(n, d, leaf, strat, self.n_distinct, self.n_repeated, self.maxmult)
        draws = PivotDraws(np.random.choice, plan)
        pts = np.array(self.P0)  # fresh writable copy
        consumers_before = self.prng_consumers
        if any(x is not None for x in self.trees):
            self.probes["rebuild"] += 1
        self.strategies_used.add(strat)
        info = "n=%d d=%d max_leaf_size=%d strategy=%s largest group of identical points=%d forced=%r" % (
            n, d, leaf, strat, self.maxmult, ev.get("forced", []))
        np.random.choice = draws
        try:
            try:
                with _budget.StepBudget(limit) as b:
                    out = call(self.KDTree, pts, max_leaf_size=leaf, strategy=(strat.upper() if ev.get("upper") else strat))  # names are case-insensitive
            finally:
                np.random.choice = draws.real
                self._account_draws(draws, consumers_before)
        except SimBudget as e:
            self.builds_judged += 1
            site = _outer_site(e.__traceback__) or "spatial.kdtree:__init__"
            # "building the tree finishes"
            self.violation("construction-terminates", "build", "budget_exceeded", site, dup,
                           "KDTree(...) still running after %d steps (budget %d, see build_budget); %s; "
                           "pivot draws so far %d" % (b.steps, limit, info, draws.draws))
        self.builds_judged += 1
        if not out.ok:
            # "building the tree finishes" - it raised instead
            self.exc_violation("construction-terminates", "build", out, dup, info)
        tree = out.value
        if ev.get("scribble") and pts.size:
            pts[:] = pts[::-1].copy() * 0.5 + 17.0
            self.probes["caller_reuses_its_array"] += 1
        self.trees[slot] = {"tree": tree, "leaf": leaf, "strategy": strat, "dup": dup, "steps": b.steps}
        self.budget_use.append(("build", strat, b.steps, limit))
        nleaves = self._check_leaves(slot, "build")
        # reach probes, read from the finished tree
        sizes = [a.size for a in self._leaf_arrays(tree)]
        self.trees[slot]["min_leaf"] = min(sizes) if sizes else 0
        self.trees[slot]["n_leaves"] = len(sizes)
        # a split left one side empty: visible as an empty leaf, or certain because a consumed forced draw made the
        # pivot the maximum of the candidates ('random': pivot = the draw itself)
        if any(s == 0 for s in sizes) or (strat == "random" and any(m == "max" for _, m in draws.replaced)):
            self.probes["empty_side_after_split"] += 1
        # a split met an axis on which all its points agree: certain at the root when axis 0 is constant and n > leaf,
        # else visible as an inner node that splits on a constant axis
        if self.const_axes and n > leaf:
            split_axes = {nd.split_axis for nd in tree.nodes if isinstance(nd, self.KDTree.Node)}
            if 0 in self.const_axes or split_axes & set(self.const_axes):
                self.probes["all_equal_on_axis"] += 1
        return {"nodes": len(tree.nodes), "leaves": nleaves, "steps": b.steps, "draws": draws.draws,
                "forced": draws.replaced}

    def _account_draws(self, draws, consumers_before):
        if draws.replaced:
            self.faults["forced_pivot"] += len(draws.replaced)
            self.forced_pattern.add(",".join(m for _, m in draws.replaced))
        if draws.draws > 0:
            if self.shared and consumers_before > 0:
                self.faults["prng_handover"] += 1  # this build started where a foreign consumer left the stream
            self.prng_consumers += 1

    def _step_knn(self, ev):
        tr = self.trees[ev["t"]]
        tree, n, k = tr["tree"], self.n, int(ev["k"])
        q = self._mkpt(ev)
        m = min(k, n)
        # argument class: k against n and against the population of the smallest leaf of this tree (observable in
        # tree.nodes): when every leaf holds at least k points the first leaf visited already yields k candidates
        ac = "k>n" if k > n else ("k==n" if k == n else ("smallest-leaf<k<n" if k > tr["min_leaf"] else "k<=smallest-leaf"))
        info = "n=%d d=%d max_leaf_size=%d strategy=%s k=%d pt=%r (%s)" % (n, self.d, tr["leaf"], tr["strategy"], k, ev["pt"], ev.get("pk"))
        try:
            with _budget.StepBudget(query_budget(n, len(tree.nodes))) as b:
                out = call(tree.query, q, k)
        except SimBudget as e:
            self.violation("knn-count", "knn", "budget_exceeded", _outer_site(e.__traceback__), ac,
                           "query(...) still running after %d steps; %s" % (b.steps, info))
        self.budget_use.append(("knn", tr["strategy"], b.steps, b.limit))
        if not out.ok:
            self.exc_violation("knn-count", "knn", out, ac, info)
        D = brute_distances(self.P0, np.array(ev["pt"], dtype=np.float64))
        want = np.sort(D)[:m]
        # probes
        if k >= n:
            self.probes["k>=n"] += 1
        if tr["n_leaves"] > 1 and k > tr["min_leaf"]:
            self.probes["leaf_smaller_than_k"] += 1
        if float(D.min()) == 0.0:
            self.probes["query_on_data_point"] += 1
        if ev.get("pk") in ("outside", "one_axis_out"):
            self.probes["outside_query"] += 1
        if m < n and np.sort(D)[m] == want[-1]:
            self.probes["tie_at_kth"] += 1
        res = self._as_indices(out.value, "knn-count", "knn", ac)
        # "returns exactly min(k, n) indices"
        if len(res) != m:
            self.violation("knn-count", "knn", "wrong_value", "query", ac,
                           "query returned %d indices, expected min(k, n) = %d; %s; returned %r" % (len(res), m, info, res[:30]))
        if any(i < 0 or i >= n for i in res) or len(set(res)) != len(res):
            self.violation("knn-count", "knn", "wrong_value", "query", "repeated-or-out-of-range",
                           "indices must be %d distinct values in range(%d): %r; %s" % (m, n, res[:30], info))
        got = D[res] if res else np.zeros(0)
        # "whose distances are the k smallest distances to the query point" (ties may resolve either way:
        # only the sorted distances are compared)
        gs = np.sort(got)
        for a, w in zip(gs.tolist(), want.tolist()):
            if abs(a - w) > _tol(a, w):
                self.violation("knn-smallest", "knn", "wrong_value", "query", ac,
                               "distances of the returned points (sorted) %r != the %d smallest distances %r; %s; returned %r" % (
                                   gs.tolist()[:12], m, want.tolist()[:12], info, res[:30]))
        # "in non-decreasing order"
        g = got.tolist()
        for j in range(len(g) - 1):
            if g[j + 1] < g[j] - _tol(g[j], g[j + 1]):
                self.violation("knn-order", "knn", "wrong_value", "query", ac,
                               "distances of the returned points are not non-decreasing at position %d: %r; %s" % (j, g[:12], info))
        self.queries_judged += 1
        return res

    def _step_radius(self, ev):
        tr = self.trees[ev["t"]]
        tree, n, r = tr["tree"], self.n, float(ev["r"])
        q = self._mkpt(ev)
        ac = "r==0" if r == 0.0 else "r>0"
        info = "n=%d d=%d max_leaf_size=%d strategy=%s r=%r pt=%r (%s)" % (n, self.d, tr["leaf"], tr["strategy"], r, ev["pt"], ev.get("pk"))
        try:
            with _budget.StepBudget(query_budget(n, len(tree.nodes))) as b:
                out = call(tree.query_radius, q, r)
        except SimBudget as e:
            self.violation("radius-exact", "radius", "budget_exceeded", _outer_site(e.__traceback__), ac,
                           "query_radius(...) still running after %d steps; %s" % (b.steps, info))
        self.budget_use.append(("radius", tr["strategy"], b.steps, b.limit))
        if not out.ok:
            self.exc_violation("radius-exact", "radius", out, ac, info)
        # the answer of the PREVIOUS radius query, kept by the caller, is still that answer
        held = getattr(self, "_held_radius", None)
        if held is not None:
            obj_, was_ = held
            try:
                now_ = sorted(int(i) for i in obj_)
            except Exception:  # noqa: BLE001
                now_ = None
            if now_ != was_:
                self.violation("radius-exact", "radius", "state_corrupted", "query_radius", "earlier-answer",
                               "the list returned by an earlier query_radius call read %r, after a later call it reads %r" % (was_[:20], (now_ or [])[:20]))
            self.probes["earlier_answer_kept"] += 1
        D = brute_distances(self.P0, np.array(ev["pt"], dtype=np.float64))
        if r == 0.0:
            self.probes["radius_zero"] += 1
        if float(D.min()) == 0.0:
            self.probes["query_on_data_point"] += 1
        if ev.get("pk") in ("outside", "one_axis_out"):
            self.probes["outside_query"] += 1
        if np.any(D == r):
            self.probes["radius_equals_data_distance"] += 1
        if r > 0 and np.any((np.abs(D - r) <= r * 2.0 ** -39) & (np.abs(D - r) > ULPS * EPS * r)):
            self.probes["radius_hair_off_data_distance"] += 1
        res = self._as_indices(out.value, "radius-exact", "radius", ac)
        if any(i < 0 or i >= n for i in res) or len(set(res)) != len(res):
            self.violation("radius-exact", "radius", "wrong_value", "query_radius", "repeated-or-out-of-range",
                           "answer must list distinct indices in range(%d): %r; %s" % (n, res[:30], info))
        got = set(res)
        # "returns exactly the points within the radius": {i : d_i <= r}, not judged inside the rounding band
        missing, extra = [], []
        for i in range(n):
            di = float(D[i])
            tol = _tol(di, r)
            if i in got:
                if di > r + tol:
                    extra.append(i)
            elif di < r - tol or di == 0.0:
                missing.append(i)
        if missing or extra:
            self.violation("radius-exact", "radius", "wrong_value", "query_radius", ac,
                           "missing (d_i <= r) %r with d=%r; extra (d_i > r) %r with d=%r; %s" % (
                               missing[:10], [float(D[i]) for i in missing[:10]], extra[:10],
                               [float(D[i]) for i in extra[:10]], info))
        self.queries_judged += 1
        self._held_radius = (out.value, sorted(res))
        return sorted(res)

    def finish(self):
        # queries never move points between leaves: the partition still holds for every tree of the run
        for t in range(N_SLOTS):
            if self.trees[t] is not None:
                self._check_leaves(t, "end")

    def nontrivial(self):
        return self.builds_judged > 0 and (self.queries_judged > 0 or all(t is None for t in self.trees))

    def class_key(self):
        n = self.n
        ncls = next(c for c, (lo, hi) in SIZES.items() if lo <= n <= hi) if 1 <= n <= 3000 else "n?"
        w = self.cfg["world"]
        return "%s|d%d|%s|%s|L%d|%s|F:%s" % (ncls, self.d, w.get("gen"), dup_class(self.P0, self.cfg["leaf"]),
                                             self.cfg["leaf"], "+".join(sorted(self.strategies_used)),
                                             ";".join(sorted(self.forced_pattern)))


def _outer_site(tb):
    """outermost mouette frame of a traceback = the public entry point that was running ('module:function');
    stable under minimisation, unlike the innermost frame where the budget happened to trip"""
    while tb is not None:
        fn = tb.tb_frame.f_code.co_filename
        if os.sep + "mouette" + os.sep in fn:
            mod = fn.split(os.sep + "mouette" + os.sep, 1)[1]
            if mod.endswith(".py"):
                mod = mod[:-3]
            return "%s:%s" % (mod.replace(os.sep, "."), tb.tb_frame.f_code.co_name)
        tb = tb.tb_next
    return ""


SIM = C11
