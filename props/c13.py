"""C13 - subdivision refines a mesh without changing its shape or topology.

World: one surface / tetrahedral mesh / polyline.  History: (optional) warm the lazy caches through connectivity
queries -> open an editing block -> a seeded sequence of operations -> close -> observers query the result AND the
object that was passed in.  A second block may then be opened on the result.  Oracles: element counts as documented,
Euler characteristic / border loops / components, total area (volume, length), old vertices bitwise in place, new
vertices at the centre of what they refine, C01/C03-style queries on the result against RefSurface/RefVolume of the
result's own element lists, and the passed-in object either unchanged or equal to the result (never half-updated)."""
import math

import numpy as np

from sim.engine import Sim, call, canon
from sim.rng import Rng, h64
from models.ref_surface import RefSurface, is_oriented_manifold, is_regular_complex
from models.ref_volume import RefVolume, is_conforming_tet_mesh, det3, sub, lib_orientation
from models import surfgen, volgen


# ------------------------------------------------------------------------------------------------ geometry helpers
def vec_area(P, f):
    ax = ay = az = 0.0
    n = len(f)
    for j in range(n):
        a, b = P[f[j]], P[f[(j + 1) % n]]
        ax += a[1] * b[2] - a[2] * b[1]
        ay += a[2] * b[0] - a[0] * b[2]
        az += a[0] * b[1] - a[1] * b[0]
    return (ax / 2, ay / 2, az / 2)


def face_area(P, f):
    """area of a polygon face (sum over the fan from vertex 0; equals the true area for planar convex faces)"""
    tot = 0.0
    for k in range(1, len(f) - 1):
        a, b, c = P[f[0]], P[f[k]], P[f[k + 1]]
        u, v = sub(b, a), sub(c, a)
        cx, cy, cz = u[1] * v[2] - u[2] * v[1], u[2] * v[0] - u[0] * v[2], u[0] * v[1] - u[1] * v[0]
        tot += 0.5 * math.sqrt(cx * cx + cy * cy + cz * cz)
    return tot


def planar_convex(P, f):
    """every triangle (f[i-1], f[i], f[i+1]) has a normal parallel to the polygon's vector area (planar, convex, CCW)"""
    if len(f) == 3:
        return True
    N = vec_area(P, f)
    nn = math.sqrt(sum(x * x for x in N))
    L2 = max(sum((P[f[j]][k] - P[f[j - 1]][k]) ** 2 for k in range(3)) for j in range(len(f)))  # (longest side)^2: the face's own scale
    if nn < 1e-12 * L2 or L2 == 0.0:
        return False
    n = len(f)
    for j in range(n):
        a, b, c = P[f[j - 1]], P[f[j]], P[f[(j + 1) % n]]
        u, v = sub(b, a), sub(c, b)
        cr = (u[1] * v[2] - u[2] * v[1], u[2] * v[0] - u[0] * v[2], u[0] * v[1] - u[1] * v[0])
        cn = math.sqrt(sum(x * x for x in cr))
        dot = sum(x * y for x, y in zip(cr, N))
        if dot < -1e-12 * nn * L2 or abs(dot - cn * nn) > 1e-9 * cn * nn + 1e-15 * L2 * L2:  # every tolerance relative to the face's size
            return False
    return True


def mid(P, a, b):
    return [(P[a][k] + P[b][k]) / 2 for k in range(3)]


def bary(P, vs):
    return [sum(P[v][k] for v in vs) / len(vs) for k in range(3)]


def same_points(A, B, scale):
    """multiset equality of two point lists up to 1e-12 * scale"""
    if len(A) != len(B):
        return False
    A, B = sorted(A), sorted(B)
    used = [False] * len(B)
    for p in A:
        hit = None
        for j, q in enumerate(B):
            if not used[j] and all(abs(x - y) <= 1e-12 * scale for x, y in zip(p, q)):
                hit = j
                break
        if hit is None:
            return False
        used[hit] = True
    return True


def edges_of(faces):
    return sorted({tuple(sorted((f[j], f[(j + 1) % len(f)]))) for f in faces for j in range(len(f))})


def tet_volume(P, c):
    A, B, C, D = (P[v] for v in c)
    return abs(det3(sub(A, D), sub(B, D), sub(C, D))) / 6


class C13(Sim):
    PROP = "C13"
    RULE = ("one run = one surface / tet mesh / polyline; optional cache warm-up; 1-2 editing blocks of 1-4 seeded operations; observers on the result "
            "and on the object passed in; distinct = distinct (mesh kind+class, warm/cold, operation sequence); non-trivial = >= 1 block closed (or one "
            "polyline split) and >= 1 observation")
    FAULT_KINDS = ["warm", "reject"]
    PROBES = ["polygon_input", "quad_input", "closed_surface", "bordered_surface", "multi_op_block", "second_block", "area_checked", "centre_checked",
              "input_observed", "result_observed", "volume_block", "polyline_split", "face_centre_split_interior", "sdbet", "int_coordinates", "exception_leaves_block", "boundary_of_refined_volume", "non_list_rows", "boundary_data_carried_over", "other_block_in_between", "small_geometry", "verbose_block"]
    QUICK_RUNS = 2500
    THOROUGH_RUNS = 250000
    BLOCK = 20
    ASSUMPTIONS = ["admitted surfaces are regular cell complexes: two distinct faces share nothing, one vertex or exactly one common edge. (Where two quads meet in "
                   "two opposite corners, or a face has a chord, the library's fixed choice of diagonal yields a non-manifold triangulation; the documentation "
                   "admits no such input explicitly, and repairing it needs an edge lookup per triangulated quad.)",
                   "face-specific operations target a face whose arity is known from the face list read through editor.mesh just before the call",
                   "total area is compared only when every non-triangular face of the block's input is planar and convex (otherwise triangulating changes the area by definition)",
                   "'new vertex at the centre' is checked per operation against the face/edge list read through the public editor.mesh just before the operation, for single-level operations "
                   "on inputs where the refined edges are observable (triangular input for 1-to-4 / 1-to-3 / 1-to-6; any input for fan and triangulate)",
                   "queries on the passed-in object or the result are issued only while no block is open (the documentation says connectivity is disabled inside the block)"]
    COMPONENTS = {"real": ["mouette.mesh.subdivision", "mouette.mesh.mesh_data", "mouette.mesh.datatypes.*"], "stub": ["none"]}

    # ------------------------------------------------------------------ config
    def gen_config(self, rng, tier):
        kind = rng.wchoice(["surface", "tets", "polyline"], [6, 3, 1.5])
        w = {"kind": kind}
        if kind == "surface":
            tri = rng.chance(0.45)
            wr = rng.fork("w")
            for _try in range(30):
                p, f = surfgen.gen_surface(wr, rng.choice([1, 4, 8, 16, 30]), tri_only=tri, allow_union=rng.chance(0.2))
                if is_regular_complex(f):
                    break  # admitted surfaces are regular cell complexes (two faces meet in nothing, one vertex or one common edge)
            else:
                p, f = surfgen.grid(2, 2, "quad", wr)
            flat = all(len(x) == 3 for x in f)
            w["points"] = [[round(x, 5) for x in q] for q in p]
            if rng.chance(0.15):
                # integer coordinates (a hand-typed lattice): midpoints and centres are not integers
                p, f = surfgen.grid(rng.randint(1, 3), rng.randint(1, 3), "tri" if tri else rng.choice(["quad", "mixed"]), wr)
                w["points"] = [[int(round(x)) * 3 + (1 if (i % 2) else 0) for x in q[:2]] + [0] for i, q in enumerate(p)]
                w["int_coords"] = True
                flat = True
            if not flat:
                # planar faces wherever the base embedding had them: undo the generator's jitter by rounding to the lattice where possible
                w["points"] = [[round(x, 1) if abs(x - round(x, 1)) < 0.03 else round(x, 5) for x in q] for q in p]
            w["faces"] = f
        elif kind == "tets":
            p, c, mode = volgen.gen_tets(rng.fork("w"), rng.choice([1, 3, 6, 12]))
            w["points"], w["cells"] = p, c
        else:
            n = rng.randint(2, 9)
            w["points"] = [[float(i), round(rng.uniform(-1, 1), 3), round(rng.uniform(-1, 1), 3)] for i in range(n)]
            ed = [[i, i + 1] for i in range(n - 1)]
            if rng.chance(0.3) and n > 2:
                ed.append([0, n - 1])
            if rng.chance(0.3) and n > 4:
                ed.append([1, n - 2])
            w["edges"] = ed
        # absolute size of the geometry (a refinement is a refinement at any scale): small cells have determinants ~1e-9
        k_ = rng.wchoice([1.0, 1e-3, 1e2], [6, 2, 1]) if kind == "tets" else (rng.wchoice([1.0, 1e-2, 1e2], [6, 1.5, 1]) if kind == "surface" and not w.get("int_coords") else 1.0)
        if k_ != 1.0:
            w["points"] = [[k_ * x for x in q] for q in w["points"]]
            w["scale"] = k_
        w["flavour"] = rng.wchoice(["list", "tuple", "numpy"], [3, 1, 1.5])  # how the element rows are stored (from_arrays keeps numpy rows)
        return {"world": w, "max_steps": rng.randint(4, 16), "warm_p": rng.choice([0.0, 0.5, 1.0]), "max_ops": rng.randint(1, 4),
                "ops_off": rng.subset(["triangulate_face", "split_face_as_fan", "triangulate", "loop", "3quads", "6", "cell_fan", "face_center", "sdbet"], 0.2),
                "levels": rng.choice([1, 1, 2])}

    def start(self, cfg):
        import mouette as M
        from mouette.mesh.mesh_data import RawMeshData
        self.M = M
        w = cfg["world"]
        d = RawMeshData()
        d.vertices += [list(p) for p in w["points"]]
        if w.get("int_coords"):
            self.probes["int_coordinates"] += 1
        fl = w.get("flavour", "list")
        conv = {"list": list, "tuple": tuple, "numpy": np.array}[fl]
        if fl != "list":
            self.probes["non_list_rows"] += 1
        if w["kind"] == "surface":
            d.faces += [conv(f) for f in w["faces"]]
            self.cur = M.mesh.SurfaceMesh(d)
        elif w["kind"] == "tets":
            d.cells += [conv(c) for c in w["cells"]]
            self.cur = M.mesh.VolumeMesh(d)
        else:
            d.edges += [tuple(e) for e in w["edges"]]
            self.cur = M.mesh.PolyLine(d)
        self.kind = w["kind"]
        if w.get("scale", 1.0) < 1.0:
            self.probes["small_geometry"] += 1
        self.editor = None       # open editing block
        self.block = None        # dict describing the open block (model side)
        self.input_obj = None    # object passed to the last closed block
        self.input_snap = None
        self.result_snap = None
        self.nblocks = 0
        self.nobs = 0
        self.warmed = False
        self.others = getattr(self, "others", [])
        self.opseq = []
        if self.kind == "surface":
            ar = {len(f) for f in w["faces"]}
            if any(a > 4 for a in ar):
                self.probes["polygon_input"] += 1
            if 4 in ar:
                self.probes["quad_input"] += 1
            r = RefSurface(len(w["points"]), w["faces"])
            self.probes["closed_surface" if r.border_loops() == 0 else "bordered_surface"] += 1

    # ------------------------------------------------------------------ snapshots of durable state
    def _snap(self, mesh):
        out = {"V": [[float(x) for x in v] for v in mesh.vertices]}
        for k in ("edges", "faces", "cells"):
            if hasattr(mesh, k):
                out[k] = [[int(x) for x in e] for e in getattr(mesh, k)]
        for k in ("face_corners", "cell_corners", "cell_faces"):
            if hasattr(mesh, k):
                c = getattr(mesh, k)
                out[k] = [list(map(int, c._elem)), list(map(int, c._adj))]
        return out

    # ------------------------------------------------------------------ proposing
    def propose(self, rng):
        cfg = self.cfg
        r = self.client_rng("editor" if self.editor is not None else "driver")
        if self.kind == "polyline":
            if r.chance(0.5):
                return {"c": "editor", "op": "split_edge", "e": r.below(max(1, len(self.cur.edges)))}
            return {"c": "observer", "op": "observe_polyline", "qseed": r.below(1 << 30)}
        if self.editor is not None:
            if self.block["nops"] >= cfg["max_ops"] or (self.block["nops"] >= 1 and r.chance(0.3)):
                return {"c": "editor", "op": "close"}
            if cfg["faults_on"] and r.chance(0.12):
                # fault 'reject': an operation called with an element index that does not exist raises inside the block, and the
                # exception leaves the block (Python hands it to __exit__)
                name = r.choice(["triangulate_face", "split_face_as_fan"] if self.kind == "surface" else ["cell_fan", "face_center"])
                return {"c": "editor", "op": "sop_bad", "name": name, "past_end": r.choice([0, 1, 7])}
            if r.chance(0.06):
                return {"c": "bystander", "op": "other_block", "vol": self.kind == "tets"}
            return self._prop_sop(r)
        # no block open
        choices = ["open", "open"]
        if r.chance(0.05):
            return {"c": "bystander", "op": "other_block", "vol": self.kind == "tets"}
        if not self.warmed and cfg["faults_on"] and r.chance(cfg["warm_p"]):
            return {"c": "warmer", "op": "warm", "qseed": r.below(1 << 30), "n": r.randint(1, 6)}
        if self.nblocks >= 1:
            choices = ["observe_result", "observe_result", "observe_input", "observe_input"] + (["open"] if self.nblocks < 2 else [])
        if self.kind == "surface" and self.nblocks == 0 and "sdbet" not in cfg["ops_off"] and r.chance(0.08):
            return {"c": "editor", "op": "sdbet"}
        op = r.choice(choices)
        if op == "open":
            return {"c": "editor", "op": "open", "verbose": r.chance(0.15)}
        return {"c": "observer", "op": op, "qseed": r.below(1 << 30)}

    def _prop_sop(self, r):
        off = self.cfg["ops_off"]
        raw = self.editor.mesh
        if self.kind == "surface":
            names = [n for n in ["triangulate_face", "split_face_as_fan", "triangulate", "loop", "3quads", "6"] if n not in off] or ["triangulate"]
            nf = len(raw.faces)
            if nf > 150:
                names = [n for n in names if n in ("triangulate_face", "split_face_as_fan", "triangulate")] or ["triangulate"]
            n = r.choice(names)
            ev = {"c": "editor", "op": "sop", "name": n}
            if n in ("triangulate_face", "split_face_as_fan"):
                ev["f"] = r.below(nf)
            if n == "loop":
                ev["n"] = self.cfg["levels"] if nf <= 40 else 1
            if n == "6":
                ev["n"] = self.cfg["levels"] if nf <= 20 else 1
            return ev
        names = [n for n in ["cell_fan", "face_center"] if n not in off] or ["cell_fan"]
        n = r.choice(names)
        ev = {"c": "editor", "op": "sop", "name": n}
        if n == "cell_fan":
            ev["cell"] = r.below(len(raw.cells))
        else:
            ev["f"] = r.below(len(raw.faces))
        return ev

    def shrink_cfgs(self, cfg):
        """fewer faces / cells (halves, quarters, eighths, single elements), unused vertices dropped; only worlds of the admitted kind
        (oriented manifold regular cell complexes; conforming tetrahedral meshes) are proposed"""
        from models.ref_surface import is_oriented_manifold
        from models.ref_volume import is_conforming_tet_mesh
        w = cfg["world"]
        key = {"surface": "faces", "tets": "cells"}.get(w["kind"])
        if key is None:
            return
        elems, pts = w[key], w["points"]
        for lo, hi in surfgen.drop_chunks(len(elems)):
            ne = elems[:lo] + elems[hi:]
            if not ne:
                continue
            p2, e2, _ = surfgen.compact_with_map(pts, ne)
            if key == "faces":
                ok = is_oriented_manifold(len(p2), e2) and is_regular_complex(e2)
            else:
                ok = is_conforming_tet_mesh([[float(x) for x in p] for p in p2], e2)
            if ok:
                yield dict(cfg, world=dict(w, **{"points": p2, key: e2}))

    def close(self):
        if getattr(self, "_stdout", None) is not None:
            import sys
            sys.stdout, self._stdout = self._stdout, None

    def applicable(self, ev):
        op = ev["op"]
        if self.kind == "polyline":
            return op in ("split_edge", "observe_polyline") and (op != "split_edge" or ev["e"] < len(self.cur.edges))
        if op == "other_block":
            return True
        if op == "sop_bad":
            return self.editor is not None and (ev["name"] in ("cell_fan", "face_center")) == (self.kind == "tets")
        if op in ("sop", "close"):
            if self.editor is None:
                return False
            if op == "sop":
                raw = self.editor.mesh
                if "f" in ev and ev["f"] >= len(raw.faces):
                    return False
                if "cell" in ev and ev["cell"] >= len(raw.cells):
                    return False
                if (ev["name"] in ("cell_fan", "face_center")) != (self.kind == "tets"):
                    return False
            return True
        if self.editor is not None:
            return False  # no query / new block while a block is open
        if op in ("observe_result", "observe_input"):
            return self.nblocks >= 1
        if op == "sdbet":
            return self.kind == "surface"
        if op == "open":
            return self.nblocks < 2
        return op == "warm"

    # ------------------------------------------------------------------ query scripts (C01 / C03 oracles on a mesh's OWN element lists)
    def _query(self, mesh, qseed, nq, clause, who):
        from props import c01, c03
        r = Rng(h64(self.cfg["seed"], "q", qseed))
        P = [[float(x) for x in v] for v in mesh.vertices]
        if self.kind == "tets":
            cells = [[int(x) for x in c] for c in mesh.cells]
            ref = RefVolume(P, cells, [[int(x) for x in f] for f in mesh.faces], [tuple(map(int, e)) for e in mesh.edges])
            helper = c03.C03()
            helper.cfg = {"sort": True, "miss_rate": 0.0, "world": {"points": P, "cells": cells, "orient": "mixed"}}
            helper.ref = ref
            if sorted(tuple(sorted(e)) for e in ref.edges) != sorted(ref.edge_cells) or sorted(tuple(sorted(f)) for f in ref.faces) != sorted(ref.tri_cells):
                self.violation(clause, "element-lists", "wrong_value", who, "", "%s: edge/face lists do not match the cells: edges %r faces %r" % (who, ref.edges, ref.faces))
            bk = ref.border_edge_keys()
            helper.border_e = sorted(ref.eid[k] for k in bk)
            helper.interior_e = sorted(set(range(len(ref.edges))) - set(helper.border_e))
            # the boundary surface of the refined volume (C03's boundary clauses, on the result of an editing block): closed, exactly the
            # border faces, outwards - for the standalone extractor when every cell is positively oriented, which a split preserves
            helper.M, helper.PROP = self.M, self.PROP
            orient = {lib_orientation(P, c) > 0 for c in cells}
            helper.cfg["world"]["orient"] = "positive" if orient == {True} else "mixed"
            # both extractors in every observation (so also BEFORE a block, when the observation warms the caches): the boundary attached
            # to the volume by enable_boundary_connectivity() must be the one of the mesh as it stands now, not of an earlier state
            if getattr(mesh, "boundary_connectivity", None) is not None:
                # boundary data left on the volume by an earlier enable_boundary_connectivity(): either dropped by an edit, or still true
                self.probes["boundary_data_carried_over"] += 1
                helper._do_enable(mesh, ref, "carried_boundary", call_enable=False)
            extract_first = r.chance(0.5)  # the extractors fill the border tables too: run before the queries in half of the observations only

            def extract():
                if r.chance(0.5):
                    helper._do_standalone(mesh, ref, "standalone_boundary")
                helper._do_enable(mesh, ref, "enable_boundary")
                self.probes["boundary_of_refined_volume"] += 1
            if extract_first:
                extract()
            names = ["f2c", "c2f", "c2c", "v2c", "c2e", "e2c", "e2f", "in_cell_face_index", "common_face", "other_face_side", "boundary_faces",
                     "interior_faces", "boundary_edges", "interior_edges", "boundary_vertices", "interior_vertices",
                     "is_face_on_border", "is_edge_on_border", "is_vertex_on_border", "f2e", "edge_id", "face_id"]
            Qt, judge = c03.Q, lambda q, mode, got, exp: c03.judge(mode, got, exp, True)
        else:
            faces = [[int(x) for x in f] for f in mesh.faces]
            n = len(P)
            ref = RefSurface(n, faces, [tuple(map(int, e)) for e in mesh.edges])
            if sorted(tuple(sorted(e)) for e in ref.edges) != sorted(ref.all_edge_pairs()):
                self.violation(clause, "element-lists", "wrong_value", who, "", "%s: the edge list %r is not the set of sides of its faces %r" % (who, sorted(ref.edges), sorted(ref.all_edge_pairs())))
            fc = mesh.face_corners
            if list(map(int, fc._elem)) != [v for f in faces for v in f] or list(map(int, fc._adj)) != [i for i, f in enumerate(faces) for _ in f]:
                self.violation(clause, "element-lists", "state_corrupted", who, "corners", "%s: %d corner records for %d face-vertex incidences (or wrong content)" % (who, len(fc), sum(map(len, faces))))
            extract_first, extract = True, None
            helper = c01.C01()
            helper.cfg = {"sort": True, "miss_rate": 0.0}
            helper.ref = ref
            helper.border_v = sorted(ref.border_vertices())
            helper.interior_v = sorted(set(range(n)) - set(helper.border_v))
            helper.edge_pairs = sorted(ref.all_edge_pairs())
            names = ["v2v", "v2f", "v2c", "v2e", "next", "opp", "he2c", "direct_face", "face_id", "f2f", "f2e", "f2v", "boundary_edges",
                     "interior_vertices", "boundary_vertices", "is_edge_on_border", "is_vertex_on_border", "edge_id", "in_face_index", "f2c", "is_triangular", "is_quad"]
            Qt, judge = c01.Q, lambda q, mode, got, exp: c01.judge(q, mode, got, exp, True)
        # the border family keeps its own lazily built tables (lists and per-element flags): asked more often than its share of the names
        border_names = [q for q in names if q.startswith(("boundary_", "interior_")) or q.endswith("_on_border")]
        flags = [q for q in ("is_edge_on_border", "is_vertex_on_border", "is_face_on_border") if q in names]
        # the per-element border flags have tables of their own: each is asked once per observation and, on volumes of moderate size,
        # swept over EVERY element (an edit creates few new border elements: a single random probe rarely lands on one)
        sweep = []
        if self.kind == "tets":
            for q, cnt in (("is_edge_on_border", len(ref.edges)), ("is_face_on_border", len(ref.faces)), ("is_vertex_on_border", ref.nv)):
                if q in names and cnt <= 160:
                    sweep += [(q, [i]) for i in range(cnt)]
        # (asking the flags first rebuilds every table: in half of the observations the seeded queries come first, so that each kind of
        #  query is, now and then, the FIRST one after an edit)
        plan = ([(q, None) for q in flags] + sweep + [(None, None)] * nq) if r.chance(0.5) else ([(None, None)] * nq + [(q, None) for q in flags] + sweep)
        for q, args in plan:
            if q is None:
                q = r.choice(border_names) if r.chance(0.3) else r.choice(names)
            if args is None:
                args = helper._gen_args(r, q)
            fam, fn, expf, mode = Qt[q]
            o = call(fn, mesh, mesh.connectivity, *args)
            if not o.ok:
                self.exc_violation(clause, q, o, who, "%s: %s%r raised" % (who, q, tuple(args)))
            why = judge(q, mode, o.value, expf(ref, helper, *args))
            if why is not None:
                self.violation(clause, q, "wrong_value", who, "warm" if self.warmed else "cold", "%s: %s%r = %r; %s" % (who, q, tuple(args), canon(o.value), why))
        if not extract_first:
            extract()

    # ------------------------------------------------------------------ per-operation contract (model side)
    def _peek(self):
        raw = self.editor.mesh
        P = [[float(x) for x in v] for v in raw.vertices]
        F = [[int(x) for x in f] for f in raw.faces]
        C = [[int(x) for x in c] for c in raw.cells] if self.kind == "tets" else None
        return P, F, C

    def _expect_surface_op(self, ev, P, F):
        """(dV, faces_after_count, expected new vertex positions or None when not observable)"""
        name = ev["name"]
        ar = [len(f) for f in F]
        tri = all(a == 3 for a in ar)

        def tri_counts():
            dv = sum(1 for a in ar if a > 4)
            nf = sum(1 if a == 3 else 2 if a == 4 else a for a in ar)
            pts = [bary(P, f) for f in F if len(f) > 4]
            return dv, nf, pts
        if name == "triangulate_face":
            a = ar[ev["f"]]
            if a == 3:
                return 0, len(F), []
            if a == 4:
                return 0, len(F) + 1, []
            return 1, len(F) + a - 1, [bary(P, F[ev["f"]])]
        if name == "split_face_as_fan":
            a = ar[ev["f"]]
            return 1, len(F) + a - 1, [bary(P, F[ev["f"]])]
        if name == "triangulate":
            return tri_counts()
        dv0, nf0, pts0 = tri_counts()
        # edge count of the triangulated mesh: E + one diagonal per quad + n spokes per fanned polygon
        E = len(edges_of(F)) + sum(1 for a in ar if a == 4) + sum(a for a in ar if a > 4)
        V = len(P) + dv0
        if name == "loop":
            v, e, f = V, E, nf0
            for _ in range(ev["n"]):
                v, e, f = v + e, 2 * e + 3 * f, 4 * f
            pts = [mid(P, a, b) for a, b in edges_of(F)] if (tri and ev["n"] == 1) else None
            return v - len(P), f, pts
        if name == "3quads":
            pts = ([mid(P, a, b) for a, b in edges_of(F)] + [bary(P, f) for f in F]) if tri else None
            return V + E + nf0 - len(P), 3 * nf0, pts
        if name == "6":
            pts = ([mid(P, a, b) for a, b in edges_of(F)] + [bary(P, f) for f in F]) if (tri and ev.get("n", 1) == 1) else None
            v, e, f = V, E, nf0
            for _ in range(ev.get("n", 1)):  # one round: 3 quads per triangle, each quad cut in two
                v, e, f = v + e + f, 2 * e + 6 * f, 6 * f
            return v - len(P), f, pts
        raise ValueError(name)

    # ------------------------------------------------------------------ step
    def step(self, ev):
        self.calls += 1
        M = self.M
        op = ev["op"]
        if op == "other_block":
            # ANOTHER mesh goes through an editing block of its own (possibly while this run's block is open), and is kept alive:
            # nothing of it may show in the mesh under test
            from mouette.mesh.mesh_data import RawMeshData
            self.probes["other_block_in_between"] += 1

            def other():
                d = RawMeshData()
                if ev.get("vol"):
                    d.vertices += [[0.0, 0.0, 9.0], [1.0, 0.0, 9.0], [0.0, 1.0, 9.0], [0.0, 0.0, 10.0], [1.0, 1.0, 10.0]]
                    d.cells += [[0, 1, 2, 3], [1, 2, 3, 4]]
                    m_ = M.mesh.VolumeMesh(d)
                    with M.mesh.VolumeSubdivision(m_) as ed:
                        ed.split_cell_as_fan(0)
                else:
                    d.vertices += [[0.0, 0.0, 9.0], [1.0, 0.0, 9.0], [1.0, 1.0, 9.0], [0.0, 1.0, 9.0], [2.0, 0.5, 9.0]]
                    d.faces += [[0, 1, 2, 3], [1, 4, 2]]
                    m_ = M.mesh.SurfaceMesh(d)
                    with M.mesh.SurfaceSubdivision(m_) as ed:
                        ed.triangulate()
                        ed.split_face_as_fan(0)
                return m_
            o = call(other)
            if o.ok:
                self.others.append(o.value)
            return "other-block"
        if op == "warm":
            self._query(self.cur, ev["qseed"], ev["n"], "connectivity-before-editing", "input")
            self.warmed = True
            self.faults["warm"] += 1
            return "warmed"
        if op == "split_edge":
            return self._split_edge(ev)
        if op == "observe_polyline":
            self._observe_polyline("observe")
            self.nobs += 1
            return "ok"
        if op == "open":
            self.input_obj = self.cur
            self.input_snap = self._snap(self.cur)
            cls = M.mesh.SurfaceSubdivision if self.kind == "surface" else M.mesh.VolumeSubdivision
            if ev.get("verbose"):
                # the documented `verbose` option: what the block prints goes to a scratch stream until the run ends
                import io, sys
                if getattr(self, "_stdout", None) is None:
                    self._stdout, sys.stdout = sys.stdout, io.StringIO()
                self.probes["verbose_block"] += 1
                o = call(cls, self.cur, verbose=True)
            else:
                o = call(cls, self.cur)
            if not o.ok:
                self.exc_violation("accepts-admitted-mesh", "open", o, self.kind)
            ed = o.value
            o = call(ed.__enter__)
            if not o.ok:
                self.exc_violation("accepts-admitted-mesh", "open", o, self.kind)
            self.editor = ed
            P, F, C = self._peek()
            self.block = {"nops": 0, "P0": P, "F0": F, "C0": C, "ops": [],
                          "area_ok": self.kind == "surface" and all(planar_convex(P, f) for f in F)}
            if self.kind == "tets":
                self.probes["volume_block"] += 1
            return "open"
        if op == "sop":
            return self._sop(ev)
        if op == "close":
            return self._close()
        if op == "sop_bad":
            return self._sop_bad(ev)
        if op == "sdbet":
            return self._sdbet()
        if op == "observe_result":
            self.probes["result_observed"] += 1
            self.nobs += 1
            self._query(self.cur, ev["qseed"], 8, "result-connectivity-describes-refined-mesh", "result")
            return "ok"
        if op == "observe_input":
            self.probes["input_observed"] += 1
            self.nobs += 1
            self._check_input("observe_input")
            self._query(self.input_obj, ev["qseed"], 8, "input-never-half-updated", "input")
            return "ok"
        raise ValueError(op)

    # ---- surfaces / volumes: one operation inside the block
    def _sop(self, ev):
        ed = self.editor
        name = ev["name"]
        P, F, C = self._peek()
        self.block["nops"] += 1
        self.block["ops"].append(name)
        self.opseq.append(name)
        if self.block["nops"] > 1:
            self.probes["multi_op_block"] += 1
        ac = "after:" + ",".join(self.block["ops"][:-1]) if len(self.block["ops"]) > 1 else "first"
        if self.kind == "surface":
            fn = {"triangulate_face": lambda: ed.triangulate_face(ev["f"]), "split_face_as_fan": lambda: ed.split_face_as_fan(ev["f"]),
                  "triangulate": ed.triangulate, "loop": lambda: ed.loop_subdivision(ev["n"]), "3quads": ed.subdivide_triangles_3quads,
                  "6": lambda: ed.subdivide_triangles_6(ev["n"])}[name]
            arset = sorted({len(f) for f in F})
            o = call(fn)
            if not o.ok:
                self.exc_violation("accepts-admitted-mesh", name, o, "arities=%r/%s" % (arset, ac), "%s raised inside the editing block" % name)
            dv, nf, pts = self._expect_surface_op(ev, P, F)
            P2, F2, _ = self._peek()
            if len(P2) - len(P) != dv or len(F2) != nf:
                self.violation("documented-element-counts", name, "wrong_value", "counts", "arities=%r/%s" % (arset, ac),
                               "%s: %d -> %d vertices (expected +%d), %d -> %d faces (expected %d)" % (name, len(P), len(P2), dv, len(F), len(F2), nf))
            if P2[:len(P)] != P:
                self.violation("original-vertices-in-place", name, "wrong_value", "vertices", ac, "%s moved or replaced an existing vertex" % name)
            if pts is not None:
                self.probes["centre_checked"] += 1
                sc = max([1.0] + [abs(x) for p in P for x in p])
                if not same_points(P2[len(P):], pts, sc):
                    self.violation("new-vertex-at-centre", name, "wrong_value", "vertices", "arities=%r" % (arset,),
                                   "%s: new vertices %r, expected the centres %r" % (name, P2[len(P):][:6], pts[:6]))
            return "ok"
        # volumes
        if name == "cell_fan":
            c = C[ev["cell"]]
            o = call(ed.split_cell_as_fan, ev["cell"])
            exp_dc, ctr = 3, bary(P, c)
        else:
            f = F[ev["f"]]
            inc = [cc for cc in C if set(f) <= set(cc)]
            if len(inc) == 2:
                self.probes["face_centre_split_interior"] += 1
            o = call(ed.split_tet_from_face_center, ev["f"])
            exp_dc, ctr = 2 * len(inc), bary(P, f)
        if not o.ok:
            self.exc_violation("accepts-admitted-mesh", name, o, ac, "%s raised inside the editing block" % name)
        P2, F2, C2 = self._peek()
        if len(P2) != len(P) + 1 or len(C2) != len(C) + exp_dc:
            self.violation("documented-element-counts", name, "wrong_value", "counts", ac,
                           "%s: %d -> %d vertices (expected +1), %d -> %d cells (expected +%d)" % (name, len(P), len(P2), len(C), len(C2), exp_dc))
        if P2[:len(P)] != P:
            self.violation("original-vertices-in-place", name, "wrong_value", "vertices", ac, "%s moved or replaced an existing vertex" % name)
        sc = max([1.0] + [abs(x) for p in P for x in p])
        self.probes["centre_checked"] += 1
        if not same_points([P2[-1]], [ctr], sc):
            self.violation("new-vertex-at-centre", name, "wrong_value", "vertices", ac, "%s: new vertex %r, expected the centre %r" % (name, P2[-1], ctr))
        return "ok"

    # ---- a failing operation: the exception leaves the block
    def _sop_bad(self, ev):
        ed = self.editor
        raw = ed.mesh
        name = ev["name"]
        n = len(raw.cells) if name == "cell_fan" else len(raw.faces)
        idx = n + ev["past_end"]
        fn = {"triangulate_face": lambda: ed.triangulate_face(idx), "split_face_as_fan": lambda: ed.split_face_as_fan(idx),
              "cell_fan": lambda: ed.split_cell_as_fan(idx), "face_center": lambda: ed.split_tet_from_face_center(idx)}[name]
        o = call(fn)
        if o.ok:
            return "accepted"  # the library chose to ignore the call: the block simply goes on
        self.faults["reject"] += 1
        self.probes["exception_leaves_block"] += 1
        self.editor = None
        self.opseq.append(name + "!raise")
        o2 = call(ed.__exit__, type(o.exc), o.exc, o.exc.__traceback__)
        # whatever __exit__ does with the exception, the object that was passed in must not be left half-updated: it is a consistent
        # mesh (its corner records and connectivity answers describe its own element lists), unchanged or refined
        self.cur = self.input_obj
        self.result_snap = self._snap(self.input_obj)
        self.input_snap = self.result_snap
        self.nblocks += 1
        self.warmed = False
        self._query(self.input_obj, h64(self.cfg["seed"], "bad", self.nblocks) & 0xFFFFFF, 8, "input-never-half-updated", "input-after-failed-block")
        return "raised:" + type(o.exc).__name__

    # ---- closing a block: whole-result invariants
    def _close(self):
        ed, blk = self.editor, self.block
        self.editor = None
        ops = ",".join(blk["ops"])
        o = call(ed.__exit__, None, None, None)
        if not o.ok:
            self.exc_violation("hands-back-valid-mesh", "close", o, ops, "leaving the editing block raised")
        res = ed.mesh
        M = self.M
        want = M.mesh.SurfaceMesh if self.kind == "surface" else M.mesh.VolumeMesh
        if not isinstance(res, want):
            self.violation("hands-back-valid-mesh", "close", "wrong_value", "class", ops, "editor.mesh is a %s after the block" % type(res).__name__)
        P = [[float(x) for x in v] for v in res.vertices]
        P0 = blk["P0"]
        sc = max([1.0] + [abs(x) for p in P0 for x in p])
        if P[:len(P0)] != P0:
            self.violation("original-vertices-in-place", "close", "wrong_value", "vertices", ops, "an original vertex is no longer in place after the block")
        if self.kind == "surface":
            F = [[int(x) for x in f] for f in res.faces]
            F0 = blk["F0"]
            if not is_oriented_manifold(len(P), F):
                self.violation("hands-back-valid-mesh", "close", "wrong_value", "faces", ops, "the result is not a valid oriented manifold surface (bad index, unused vertex, duplicate or inconsistently oriented face): %r" % (F[:12],))
            a, b = RefSurface(len(P0), F0), RefSurface(len(P), F)
            t0, t1 = (a.euler(), a.border_loops(), a.components()), (b.euler(), b.border_loops(), b.components())
            if t0 != t1:
                self.violation("same-topology", "close", "wrong_value", "topology", ops, "(Euler characteristic, border loops, components) %r -> %r" % (t0, t1))
            if blk["area_ok"]:
                self.probes["area_checked"] += 1
                A0 = math.fsum(face_area(P0, f) for f in F0)
                A1 = math.fsum(face_area(P, f) for f in F)
                if abs(A0 - A1) > 1e-9 * max(A0, 1e-300):
                    self.violation("same-total-area", "close", "wrong_value", "area", ops, "total area %r -> %r" % (A0, A1))
        else:
            C = [[int(x) for x in c] for c in res.cells]
            C0 = blk["C0"]
            if not is_conforming_tet_mesh(P, C):
                self.violation("hands-back-valid-mesh", "close", "wrong_value", "cells", ops, "the result is not a valid conforming tetrahedral mesh: %r" % (C[:12],))
            V0 = math.fsum(tet_volume(P0, c) for c in C0)
            V1 = math.fsum(tet_volume(P, c) for c in C)
            if abs(V0 - V1) > 1e-9 * max(V0, 1e-300):
                self.violation("same-total-volume", "close", "wrong_value", "volume", ops, "total volume %r -> %r" % (V0, V1))
            r0, r1 = RefVolume(P0, C0), RefVolume(P, C)
            chi0 = len(P0) - len(r0.edge_cells) + len(r0.tri_cells) - len(C0)
            chi1 = len(P) - len(r1.edge_cells) + len(r1.tri_cells) - len(C)
            if chi0 != chi1 or len(r0.border_tris()) > len(r1.border_tris()):
                self.violation("same-topology", "close", "wrong_value", "topology", ops, "Euler characteristic %d -> %d" % (chi0, chi1))
        self.cur = res
        self.result_snap = self._snap(res)
        self.nblocks += 1
        if self.nblocks == 2:
            self.probes["second_block"] += 1
        self.warmed = False
        # the result's own connectivity describes the refined mesh; then the passed-in object (these two last: they are where known findings live)
        self._query(res, h64(self.cfg["seed"], "close", self.nblocks) & 0xFFFFFF, 6, "result-connectivity-describes-refined-mesh", "result")
        self._check_input("close")
        return "closed"

    def _check_input(self, after):
        """the object that was passed in is either unchanged or equal to the result, never half-updated"""
        now = self._snap(self.input_obj)
        if now == self.input_snap or now == self.result_snap:
            return
        diff_in = [k for k in now if now[k] != self.input_snap.get(k)]
        diff_res = [k for k in now if now[k] != self.result_snap.get(k)]
        self.violation("input-never-half-updated", after, "state_corrupted", "differs-from-input:%s|differs-from-result:%s" % (",".join(diff_in), ",".join(diff_res)),
                       ",".join(self.opseq[-4:]),
                       "the mesh passed to the block is neither unchanged (differs in %s) nor equal to the result (differs in %s); sizes now: %s" % (
                           diff_in, diff_res, {k: (len(v) if k not in ("face_corners", "cell_corners", "cell_faces") else len(v[0])) for k, v in now.items()}))

    # ---- split_double_boundary_edges_triangles
    def _sdbet(self):
        self.probes["sdbet"] += 1
        M = self.M
        mesh = self.cur
        P0 = [[float(x) for x in v] for v in mesh.vertices]
        F0 = [[int(x) for x in f] for f in mesh.faces]
        o = call(M.mesh.subdivision.split_double_boundary_edges_triangles, mesh)
        if not o.ok:
            if isinstance(o.exc, Exception) and "Isolated vertex" in str(o.exc):
                return "documented-raise"
            self.exc_violation("accepts-admitted-mesh", "sdbet", o, "", "split_double_boundary_edges_triangles raised")
        res = o.value
        P = [[float(x) for x in v] for v in res.vertices]
        F = [[int(x) for x in f] for f in res.faces]
        if P[:len(P0)] != P0 or not is_oriented_manifold(len(P), F):
            self.violation("hands-back-valid-mesh", "sdbet", "wrong_value", "faces", "", "result of split_double_boundary_edges_triangles is not a valid refinement")
        a, b = RefSurface(len(P0), F0), RefSurface(len(P), F)
        if (a.euler(), a.border_loops(), a.components()) != (b.euler(), b.border_loops(), b.components()):
            self.violation("same-topology", "sdbet", "wrong_value", "topology", "", "topology changed")
        self.opseq.append("sdbet")
        self.nobs += 1
        self.nblocks = max(self.nblocks, 0)
        self._query(res, 12345, 6, "result-connectivity-describes-refined-mesh", "sdbet-result")
        return "ok"

    # ---- polylines
    def _split_edge(self, ev):
        M = self.M
        pl = self.cur
        P0 = [[float(x) for x in v] for v in pl.vertices]
        E0 = [tuple(int(x) for x in e) for e in pl.edges]
        self.probes["polyline_split"] += 1
        o = call(M.mesh.subdivision.split_edge, pl, ev["e"])
        if not o.ok:
            self.exc_violation("accepts-admitted-mesh", "split_edge", o, "", "split_edge raised")
        res = o.value
        if not isinstance(res, M.mesh.PolyLine):
            self.violation("hands-back-valid-mesh", "split_edge", "wrong_value", "class", "", "split_edge returned %r" % type(res).__name__)
        self.cur = res
        self.nblocks += 1
        self.opseq.append("split_edge")
        P = [[float(x) for x in v] for v in res.vertices]
        E = [tuple(e) for e in res.edges]
        a, b = E0[ev["e"]]
        if len(P) != len(P0) + 1 or len(E) != len(E0) + 1:
            self.violation("documented-element-counts", "split_edge", "wrong_value", "counts", "", "%d -> %d vertices, %d -> %d edges" % (len(P0), len(P), len(E0), len(E)))
        if P[:len(P0)] != P0:
            self.violation("original-vertices-in-place", "split_edge", "wrong_value", "vertices", "", "an original vertex moved")
        if not same_points([P[-1]], [mid(P0, a, b)], max([1.0] + [abs(x) for p in P0 for x in p])):
            self.violation("new-vertex-at-centre", "split_edge", "wrong_value", "vertices", "", "new vertex %r, expected the midpoint %r" % (P[-1], mid(P0, a, b)))
        n = len(P0)
        Ei = []
        for e in E:
            if len(e) != 2 or not all(isinstance(x, (int, np.integer)) for x in e) or not (0 <= e[0] < e[1] <= n):
                self.violation("hands-back-valid-mesh", "split_edge", "wrong_value", "edges", "", "edge list %r is not a list of vertex pairs, low index first" % (E,))
            Ei.append((int(e[0]), int(e[1])))
        exp = sorted([e for i, e in enumerate(E0) if i != ev["e"]] + [tuple(sorted((a, n))), tuple(sorted((b, n)))])
        if sorted(Ei) != exp:
            self.violation("hands-back-valid-mesh", "split_edge", "wrong_value", "edges", "", "edges %r, expected %r" % (sorted(Ei), exp))
        self._observe_polyline("split_edge")
        return "ok"

    def _observe_polyline(self, after):
        pl = self.cur
        E = [tuple(int(x) for x in e) for e in pl.edges]
        n = len(pl.vertices)
        nb = {v: set() for v in range(n)}
        for a, b in E:
            nb[a].add(b)
            nb[b].add(a)
        for v in range(n):
            o = call(pl.connectivity.vertex_to_vertices, v)
            if not o.ok:
                self.exc_violation("result-connectivity-describes-refined-mesh", "vertex_to_vertices", o, "polyline")
            if sorted(int(x) for x in o.value) != sorted(nb[v]):
                self.violation("result-connectivity-describes-refined-mesh", "vertex_to_vertices", "wrong_value", "polyline", after,
                               "vertex_to_vertices(%d)=%r, edges say %r" % (v, o.value, sorted(nb[v])))
        for i, (a, b) in enumerate(E):
            o = call(pl.connectivity.edge_id, b, a)
            if not o.ok or o.value != i:
                self.violation("result-connectivity-describes-refined-mesh", "edge_id", "wrong_value", "polyline", after, "edge_id(%d,%d)=%r, expected %d" % (b, a, o.value if o.ok else o.exc, i))

    def finish(self):
        if self.editor is not None:
            self._close()
        if self.kind != "polyline" and self.nblocks >= 1:
            self.nobs += 1
            self._check_input("end")
            self._query(self.input_obj, 777, 6, "input-never-half-updated", "input")

    def nontrivial(self):
        return self.nblocks >= 1 and self.nobs >= 1

    def class_key(self):
        w = self.cfg["world"]
        k = w["kind"] + ("%s" % sorted({len(f) for f in w.get("faces", [])}) if w["kind"] == "surface" else "")
        return "%s|%s|%s" % (k, "warm" if self.faults.get("warm") else "cold", ">".join(self.opseq[:6]))


SIM = C13
