"""C04 - saving then loading a mesh is lossless within each format's vocabulary.

World: a small pool of meshes (point cloud, polyline, triangle / quad / mixed / polygon surfaces, tet and hex volumes,
coordinates incl. negative, tiny, huge; attributes of the registered Geogram types on every container) and ONE simulated
file system (SimFS behind the module-level `open` seam: the bytes are observable, no disk).
Clients sharing the pool and the file system: saver (mouette.save), loader (mouette.load of a file saved earlier),
cross-reader (the independent reference reader parses the saved bytes), cross-writer (the independent reference writer
plants a file - with benign lexical perturbations in faulted runs - and mouette loads it), querier (border / connectivity
queries that silently add attributes to the meshes between two saves), config client (export / completion switches).
Oracle: a snapshot of the mesh taken through its public containers at save time + the per-format vocabulary."""
import struct

import numpy as np

from sim.engine import Sim, call, canon
from sim.simfs import SimFS
from models import ref_codecs as RC
from models import surfgen, volgen
from models.ref_normalise import Normal, key

TEXT_FORMATS = ["obj", "mesh", "geogram_ascii", "off", "tet", "xyz"]
FORMATS = TEXT_FORMATS + ["stl"]
SETS = ["vertices", "edges", "faces", "face_corners", "cells", "cell_corners", "cell_faces"]
PYT = {"bool": bool, "int": int, "float": float}
SPECIAL = [0.0, -0.0, 1e-300, -2.5e-300, 1e300, -3.3e299, 0.1, 1 / 3, 123456.789, -1e-5]


def f32(x):
    return struct.unpack("<f", struct.pack("<f", x))[0]


def bits(x):
    return struct.pack("<d", float(x))


def same_coords(A, B):
    return len(A) == len(B) and all(len(p) == len(q) and all(bits(x) == bits(y) for x, y in zip(p, q)) for p, q in zip(A, B))


# ---------------------------------------------------------------------------------------------- world generation
def gen_mesh_spec(rng, kinds):
    kind = rng.choice(kinds)
    s = {"kind": kind, "edges": [], "faces": [], "cells": [], "attrs": []}
    if kind == "cloud":
        n = rng.randint(1, 8)
        s["points"] = [[rng.uniform(-2, 2) for _ in range(3)] for _ in range(n)]
    elif kind == "polyline":
        n = rng.randint(2, 8)
        s["points"] = [[float(i), rng.uniform(-1, 1), rng.uniform(-1, 1)] for i in range(n)]
        s["edges"] = [[i, i + 1] for i in range(n - 1)] + ([[0, n - 1]] if rng.chance(0.3) and n > 2 else [])
    elif kind in ("tri", "quad", "mixed", "polygon"):
        for _ in range(40):
            p, f = surfgen.gen_surface(rng, rng.choice([1, 3, 6, 12]), tri_only=(kind == "tri"), allow_union=rng.chance(0.2))
            ar = {len(x) for x in f}
            if kind == "tri" or (kind == "quad" and ar == {4}) or (kind == "mixed" and ar == {3, 4}) or (kind == "polygon" and max(ar) > 4):
                break
        else:
            if kind == "quad":
                p, f = surfgen.grid(2, 1, "quad", rng)
            elif kind == "mixed":
                p, f = surfgen.grid(2, 1, "quad", rng)
                f = f[:1] + [[f[1][0], f[1][1], f[1][2]], [f[1][0], f[1][2], f[1][3]]]
            elif kind == "polygon":
                p, f = surfgen.ngon(6)
        s["points"], s["faces"] = p, f
        if rng.chance(0.4):  # declared (hard) edges: sides of faces
            sides = sorted({tuple(sorted((ff[j], ff[(j + 1) % len(ff)]))) for ff in f for j in range(len(ff))})
            s["edges"] = [list(rng.choice(sides)) for _ in range(rng.randint(1, 3))]
            s["edges"] = [list(e) for e in dict.fromkeys(map(tuple, s["edges"]))]
    elif kind == "tets":
        p, c, _ = volgen.gen_tets(rng, rng.choice([1, 3, 6]))
        s["points"], s["cells"] = p, c
    else:  # hexes
        nx = rng.randint(1, 2)

        def vid(i, j, k):
            return (i * 2 + j) * 2 + k
        s["points"] = [[float(i), float(j), float(k)] for i in range(nx + 1) for j in range(2) for k in range(2)]
        s["cells"] = [[vid(i, 0, 0), vid(i + 1, 0, 0), vid(i + 1, 1, 0), vid(i, 1, 0), vid(i, 0, 1), vid(i + 1, 0, 1), vid(i + 1, 1, 1), vid(i, 1, 1)] for i in range(nx)]
    # coordinates: sometimes special values (negative, tiny, huge) replace a few coordinates (connectivity is what it is)
    s["points"] = [[float(x) for x in q] for q in s["points"]]
    s["wild"] = rng.chance(0.3)
    if s["wild"]:
        for _ in range(rng.randint(1, 4)):
            s["points"][rng.below(len(s["points"]))][rng.below(3)] = rng.choice(SPECIAL)
    s["f32"] = (not s["wild"]) and rng.chance(0.2)  # coordinates held in single precision (the special values above need doubles)
    # attributes (Geogram's registered element types only), on whatever containers exist
    if rng.chance(0.6):
        for _ in range(rng.randint(1, 3)):
            s["attrs"].append({"set": rng.choice(SETS), "name": "a%d" % len(s["attrs"]), "type": rng.choice(["bool", "int", "float"]),
                               "arity": rng.choice([1, 1, 2, 3, 4]), "dense": rng.chance(0.5), "fill": rng.choice([0.3, 0.7, 1.0]), "vseed": rng.below(1 << 20),
                               "default": rng.choice([None, None, 1, -1, 7])})
    return s


def attr_value(t, arity, i, j, vseed):
    h = (i * 7 + j * 3 + vseed) % 11
    v = {"bool": bool(h % 2 == 0) or (i + j) % 3 == 0, "int": h - 3, "float": (h - 5) * 0.375}[t]
    return v


def edges_agree(got, need, opt=None):
    """same edges as a multiset; `opt` lists edges that may be present once more or not (un-marked hard edges)"""
    g = sorted(tuple(sorted(int(x) for x in e)) for e in got)
    n = sorted(tuple(sorted(e)) for e in need)
    if not opt:
        return g == n
    from collections import Counter
    rest = Counter(g)
    rest.subtract(Counter(n))
    if any(v < 0 for v in rest.values()):
        return False
    extra = +rest
    allowed = Counter(tuple(sorted(e)) for e in opt)
    return all(extra[k] <= allowed.get(k, 0) for k in extra)


class C04(Sim):
    PROP = "C04"
    RULE = ("one run = a pool of 1-3 meshes and one simulated file system; saver / loader / cross-reader / cross-writer / querier / config clients under a "
            "seeded scheduler; distinct = distinct (mesh kinds, (operation, format, switches) sequence); non-trivial = >= 1 file saved or planted and >= 1 load or cross-read judged")
    FAULT_KINDS = ["lexical", "config_flip", "reject"]
    PROBES = ["raw_data_extended", "dialect_face_colours", "custom_default_attribute", "float32_coordinates", "dialect_ascii", "dialect_multi_solid", "dialect_interleave", "dialect_relative_indices", "dialect_polylines", "dialect_count_same_line", "dialect_counts_on_header_line", "dialect_face_style", "dialect_vextra", "dialect_ref", "dialect_version", "dialect_nedges", "dialect_normals", "dialect_header", "edge_unmarked", "edited_then_saved", "wild_coordinates", "polygon_to_triangle_format", "attributes_roundtrip", "query_before_save", "resave_after_load", "stl", "hex", "export_edges_off",
              "crlf", "comments", "exp_floats", "no_final_newline", "cross_read", "cross_write_load", "save_load", "overwrite", "faceless_stl", "ignore_elements", "raw_load"]
    QUICK_RUNS = 2500
    THOROUGH_RUNS = 250000
    BLOCK = 25
    ASSUMPTIONS = ["attributes are of the element types registered in the Geogram format (bool, int, float)",
                   "STL is exercised with triangle surfaces and coordinates inside the float32 range (STL has no quads: whether splitting them on export counts as "
                   "'turned into something else' is debatable and not judged)",
                   "obj / medit files written by mouette list only the declared (hard) edges of a surface: judged as the same meaning when declared edges plus the "
                   "sides of the written faces give back exactly the mesh's edge set",
                   "after a normal (non-raw) load, edges and faces derived by completion from what the file expresses are expected exactly; a format that groups elements "
                   "by kind (medit) fixes the order inside each kind only",
                   "save(..., ignore_elements=...) is exercised on a deep copy of the pooled mesh (it empties the containers it is handed); the expectation is the snapshot "
                   "minus the ignored kinds",
                   "benign lexical perturbations are limited to those the independent codec lists as legal for the format"]
    COMPONENTS = {"real": ["mouette.mesh.save / load", "mouette.mesh.io.* importers and exporters", "stl_reader (C extension, through a scratch-file shim)"],
                  "stub": ["file system: SimFS (in-process, behind the module-level open seam)", "independent reference codecs models/ref_codecs.py (oracle + cross-writer)"]}

    # ------------------------------------------------------------------ config
    def gen_config(self, rng, tier):
        kinds_all = ["cloud", "polyline", "tri", "tri", "quad", "mixed", "polygon", "tets", "hexes"]
        kinds = rng.subset(kinds_all, 0.6, at_least=1)
        wr = rng.fork("world")
        meshes = [gen_mesh_spec(wr, kinds) for _ in range(rng.randint(1, 3))]
        return {"world": {"meshes": meshes}, "max_steps": rng.randint(3, 14), "burst": rng.choice([0.2, 0.5]),
                "formats": rng.subset(FORMATS, 0.6, at_least=1), "perturb": rng.subset(list(RC.PERTURBATIONS), 0.5),
                "flip_rate": rng.choice([0.0, 0.1, 0.3]), "clients": ["saver", "loader", "xreader", "xwriter"] + (["querier"] if rng.chance(0.6) else []) + (["reeditor"] if rng.chance(0.4) else [])}

    def start(self, cfg):
        import mouette as M
        from mouette.mesh.mesh_data import RawMeshData
        self.M = M
        self.fs = SimFS().install()
        M.config.export_edges_in_obj = True
        M.config.complete_edges_from_faces = True
        M.config.complete_faces_from_cells = True
        self.sw = {"export_edges_in_obj": True, "complete_edges_from_faces": True}
        self.meshes = []
        for s in cfg["world"]["meshes"]:
            d = RawMeshData()
            if s.get("f32"):
                # single-precision coordinates (what a binary STL or a float32 array gives): a value like 0.1f is 0.10000000149011612
                d.vertices += [M.Vec(np.array(p, dtype=np.float32)) for p in s["points"]]
                self.probes["float32_coordinates"] += 1
            else:
                d.vertices += [list(p) for p in s["points"]]
            if s["edges"]:
                d.edges += [tuple(e) for e in s["edges"]]
            if s["faces"]:
                d.faces += [list(f) for f in s["faces"]]
            if s["cells"]:
                d.cells += [list(c) for c in s["cells"]]
            m = M.mesh.mesh._instanciate_raw_mesh_data(d)
            for a in s["attrs"]:
                cont = getattr(m, a["set"], None)
                if cont is None or len(cont) == 0:
                    continue
                if a.get("default") is not None and not a["dense"] and a["arity"] == 1:
                    # a sparse attribute with a default of its own: elements never written read (and must be saved) as that value
                    at = cont.create_attribute(a["name"], PYT[a["type"]], a["arity"], dense=False, default_value=PYT[a["type"]](a["default"]))
                    self.probes["custom_default_attribute"] += 1
                else:
                    at = cont.create_attribute(a["name"], PYT[a["type"]], a["arity"], dense=a["dense"])
                n = len(cont)
                for i in range(n):
                    if ((i * 13 + a["vseed"]) % 10) / 10.0 < a["fill"]:
                        at[i] = attr_value(a["type"], a["arity"], i, 0, a["vseed"]) if a["arity"] == 1 else \
                            [attr_value(a["type"], a["arity"], i, j, a["vseed"]) for j in range(a["arity"])]
            self.meshes.append(m)
            if s["wild"]:
                self.probes["wild_coordinates"] += 1
            if s["kind"] == "hexes":
                self.probes["hex"] += 1
        self.files = {}     # path -> {"fmt", "snap", "origin": "save"|"plant", "declared": [...]}
        self.nfile = 0
        self.njudged = 0
        self.seq = []
        self.loaded = []    # meshes obtained by loading (may be saved again)
        self.loaded_fmt = []
        self._pending_flip = False

    def close(self):
        self.fs.uninstall()

    # ------------------------------------------------------------------ snapshot through the public containers
    def snapshot(self, mesh):
        snap = {"class": type(mesh).__name__, "vertices": [[float(x) for x in v] for v in mesh.vertices], "edges": [], "faces": [], "cells": [], "attributes": {}, "hard": None}
        for k in ("edges", "faces", "cells"):
            if hasattr(mesh, k):
                snap[k] = [[int(x) for x in e] for e in getattr(mesh, k)]
        if hasattr(mesh, "edges") and mesh.edges.has_attribute("hard_edges"):
            h = mesh.edges.get_attribute("hard_edges")
            snap["hard"] = [i for i in range(len(mesh.edges)) if bool(h[i])]
            try:
                snap["unmarked"] = sorted(int(i) for i in h if not bool(h[i]))  # entries stored with the value False (un-marked by the caller)
            except TypeError:
                snap["unmarked"] = []
        for sname in SETS:
            cont = getattr(mesh, sname, None)
            if cont is None:
                continue
            n = len(cont)
            for name in sorted(cont.attributes):
                if name.startswith("GEO::Mesh::") or name in ("adjacent_cell", "opposite_cell", "opposite_face", "corner_adjacent_facet"):
                    continue  # connectivity tables of the format / of the library, not user attributes
                a = cont.get_attribute(name)
                t = {"Bool": "bool", "Int": "int", "Float": "float"}.get(a.type.name)
                if t is None:
                    continue
                try:
                    vals = []
                    for i in range(n):
                        v = a[i]
                        if a.elemsize == 1:
                            vals.append(PYT[t](v))
                        else:
                            vv = [PYT[t](x) for x in np.asarray(v).reshape(-1)]
                            if len(vv) != a.elemsize:
                                raise ValueError
                            vals.append(vv)
                    keys_ok = all(isinstance(kk, (int, np.integer)) and 0 <= kk < n for kk in getattr(a, "_data", {})) if isinstance(getattr(a, "_data", None), dict) else True
                    if not keys_ok:
                        continue  # an internal table keyed by something else than element indices (e.g. (cell, face) pairs): not a mesh attribute
                except Exception:
                    continue
                snap["attributes"].setdefault(sname, {})[name] = {"type": t, "arity": int(a.elemsize), "values": vals}
        return snap

    # ------------------------------------------------------------------ proposing
    def _targets(self):
        return len(self.meshes) + len(self.loaded)

    def _mesh(self, i):
        return self.meshes[i] if i < len(self.meshes) else self.loaded[i - len(self.meshes)]

    def _fmt_ok(self, snap, fmt):
        """restrictions of the generator's domain (see ASSUMPTIONS)"""
        if fmt == "stl":
            # triangle surfaces, and meshes without any face (point clouds, polylines: the file then holds zero triangles)
            if any(len(f) != 3 for f in snap["faces"]) or snap["cells"]:
                return False
            return all(abs(x) < 1e30 and (x == 0 or abs(x) > 1e-30) for p in snap["vertices"] for x in p)
        return True

    def propose(self, rng):
        cfg = self.cfg
        names = list(cfg["clients"]) + (["config"] if (cfg["faults_on"] and cfg["flip_rate"] > 0) else []) + (["rejector"] if cfg["faults_on"] else [])
        weights = [2, 2, 1.5, 2] + ([1] if "querier" in cfg["clients"] else []) + ([1.5] if "reeditor" in cfg["clients"] else []) + ([cfg["flip_rate"] * 4] if "config" in names else []) + ([0.6] if cfg["faults_on"] else [])
        c = self.pick_client(rng, names, weights, cfg["burst"])
        r = self.client_rng(c)
        if c == "rejector":
            # fault 'reject': calls the API must refuse (unknown extension, missing file).  Nothing may be written, no mesh may change
            return {"c": c, "op": r.choice(["save_unknown_ext", "load_missing", "load_unknown_ext"]), "m": r.below(self._targets())}
        if c == "config":
            k = r.choice(["export_edges_in_obj", "export_edges_in_obj", "complete_edges_from_faces"])
            return {"c": c, "op": "flip", "key": k, "value": not self.sw[k]}
        if c == "reeditor":
            # a client with a program: save a surface, load the file and keep the result, edit the loaded surface in an editing block, save
            # it again in the same format, load / cross-read that file.  Every stage is an ordinary event; a refused stage restarts the program.
            st = getattr(self, "_re", None)
            surf = [i for i in range(len(self.meshes)) if type(self.meshes[i]).__name__ == "SurfaceMesh"]
            if st is None or st["stage"] > 4 or not surf:
                fm = r.choice(cfg["formats"])
                st = self._re = {"stage": 0, "fmt": fm, "p1": "r%d.%s" % (self.nfile, fm), "src": r.choice(surf) if surf else 0}
            st["stage"] += 1
            g = st["stage"]
            if g == 1:
                return {"c": c, "op": "save", "m": st["src"], "fmt": st["fmt"], "path": st["p1"]}
            if g == 2:
                st["n_loaded"] = len(self.loaded)
                return {"c": c, "op": "load", "path": st["p1"], "keep": True, "raw": False}
            if st.get("n_loaded") is None or len(self.loaded) <= st["n_loaded"]:
                self._re = None  # the load was refused, or its result not kept: start over next time
                return {"c": c, "op": "query", "m": r.below(self._targets()), "which": "degree"}
            tgt = len(self.meshes) + st["n_loaded"]
            if g == 3:
                if r.chance(0.3):
                    return {"c": c, "op": "query", "m": tgt, "which": "degree"}  # (no edit this time: the loaded mesh is saved again as it is)
                return {"c": c, "op": "edit", "m": tgt, "how": r.choice(["triangulate", "fan", "nudge"]), "i": r.below(1 << 16)}
            if g == 4:
                f2 = st["fmt"] if r.chance(0.5) else r.choice(cfg["formats"])  # back into the same format, or into another one
                st["p2"] = "r%d.%s" % (self.nfile, f2)
                return {"c": c, "op": "save", "m": tgt, "fmt": f2, "path": st["p2"]}
            return {"c": c, "op": r.choice(["load", "xread"]), "path": st.get("p2", st["p1"]), "keep": False, "raw": r.chance(0.3)}
        if c == "querier":
            return {"c": c, "op": "query", "m": r.below(self._targets()), "which": r.choice(["border", "adjacency", "degree"])}
        fmt = r.choice(cfg["formats"])
        jl = getattr(self, "_just_loaded", None)
        if c == "saver" and jl is not None and jl < self._targets() and r.chance(0.6):
            # a surface that was just loaded from a file is edited, then (next) saved again
            self._just_loaded = None
            self._just_edited = jl
            return {"c": c, "op": "edit", "m": jl, "how": r.choice(["triangulate", "fan", "nudge", "nudge"]), "i": r.below(1 << 16)}
        if c == "saver" and r.chance(0.12):
            # the caller changes a mesh between saves: edits the faces of a surface in an editing block (also of a surface that was loaded
            # from a file), or un-marks a declared (hard) edge.  What is saved afterwards is the mesh as it stands then.
            if r.chance(0.6):
                tgt = r.below(self._targets())
                if self.loaded and r.chance(0.7):
                    tgt = len(self.meshes) + r.below(len(self.loaded))  # preferably a mesh that came out of a file
                self._just_edited = tgt
                return {"c": c, "op": "edit", "m": tgt, "how": r.choice(["triangulate", "fan", "nudge", "nudge"]), "i": r.below(1 << 16)}
            return {"c": c, "op": "unmark", "m": r.below(self._targets()), "i": r.below(1 << 16)}
        if c == "saver" or (c in ("loader", "xreader") and not self.files):
            path = "f%d.%s" % (self.nfile, fmt)
            old = sorted(p for p, f in self.files.items() if f["fmt"] == fmt and f["origin"] == "save")
            if old and r.chance(0.25):
                path = r.choice(old)  # overwrite a file written earlier: what was at the path before must not show through
            ev = {"c": "saver", "op": "save", "m": r.below(self._targets()), "fmt": fmt, "path": path}
            st_ = getattr(self, "_steer", None)
            if st_ is not None and st_[0] < self._targets() and r.chance(0.5):
                # the object that was just written to a .mesh file is written again, to the attribute-carrying format
                self._steer = None
                ev["m"], ev["fmt"], ev["path"] = st_[0], st_[1], "f%d.%s" % (self.nfile, st_[1])
                return ev
            je = getattr(self, "_just_edited", None)
            if je is not None and je < self._targets() and r.chance(0.7):
                # the mesh edited last is saved next, preferably in the format it was loaded from
                self._just_edited = None
                ev["m"] = je
                lf = self.loaded_fmt[je - len(self.meshes)] if je >= len(self.meshes) else None
                if lf in cfg["formats"] and r.chance(0.7) and path.endswith("." + fmt):
                    ev["fmt"] = lf
                    ev["path"] = "f%d.%s" % (self.nfile, lf)
            if r.chance(0.12):
                ev["ignore"] = r.subset(["edges", "faces", "cells"], 0.5, at_least=1)
            return ev
        if c == "loader" and r.chance(0.08):
            # the raw data of a surface file is loaded, ONE MORE FACE is appended to it, and the mesh is built from that (then kept: it will be saved)
            cands = sorted(p_ for p_, f_ in self.files.items() if f_["fmt"] in ("obj", "off", "geogram_ascii") and f_["expressed"]["faces"] and not f_["expressed"]["cells"])
            if cands:
                return {"c": c, "op": "raw_extend", "path": r.choice(cands)}
        if c == "loader":
            return {"c": c, "op": "load", "path": r.choice(sorted(self.files)), "keep": r.chance(0.3), "raw": r.chance(0.2)}
        if c == "xreader":
            saved = sorted(p for p, f in self.files.items() if f["origin"] == "save")
            if not saved:
                return {"c": "saver", "op": "save", "m": r.below(self._targets()), "fmt": fmt, "path": "f%d.%s" % (self.nfile, fmt)}
            return {"c": c, "op": "xread", "path": r.choice(saved)}
        # cross-writer
        legal = [p for p in RC.LEGAL_PERTURBATIONS[fmt] if p in cfg["perturb"]] if cfg["faults_on"] else []
        opts = {p: True for p in legal if r.chance(0.6)}
        if fmt == "stl" and opts:
            opts = {}  # binary STL has no lexical layer
        # dialect variants an independent writer may choose without changing the meaning of the file (both in faulted and fault-free runs)
        dia = {}
        if fmt == "obj":
            if r.chance(0.4):
                dia["face_style"] = r.choice(["v/vt", "v//vn", "v/vt/vn"])
            if r.chance(0.3):
                dia["vextra"] = r.choice(["rgb", "w"])  # `v x y z r g b` (vertex colours) / `v x y z w`
            if r.chance(0.25):
                dia["relative_indices"] = True            # negative indices count backwards from the last vertex read
            if r.chance(0.3):
                dia["polylines"] = True                   # consecutive edges chained into one `l a b c ...` element
            if r.chance(0.3):
                dia["interleave"] = True                  # each vertex written just before the first face that uses it
        elif fmt == "mesh":
            if r.chance(0.4):
                dia["ref"] = r.randint(1, 9)
            if r.chance(0.2):
                dia["version"] = 1
            if r.chance(0.25):
                dia["count_same_line"] = True             # `Vertices 12` on one line: Medit files are free-format token streams
        elif fmt == "off":
            if r.chance(0.3):
                dia["nedges"] = r.randint(1, 40)
            if r.chance(0.25):
                dia["counts_on_header_line"] = True       # `OFF 8 6 12`
            if r.chance(0.25):
                dia["face_colours"] = True                # `3 i j k r g b`: a colour after the indices of a face record
        elif fmt == "stl":
            if r.chance(0.3):
                dia["normals"] = "zero"
            if r.chance(0.35):
                dia["ascii"] = True                       # the text form of the format
                if r.chance(0.5):
                    dia["multi_solid"] = True             # ... with the triangles spread over two `solid ... endsolid` blocks
            elif r.chance(0.3):
                dia["header"] = r.choice(["exported", "COLOR=", "binary"])
        return {"c": c, "op": "plant", "m": r.below(self._targets()), "fmt": fmt, "path": "x%d.%s" % (self.nfile, fmt), "opts": opts, "dialect": dia, "pseed": r.below(1 << 20)}

    def applicable(self, ev):
        op = ev["op"]
        if op in ("save_unknown_ext", "load_missing", "load_unknown_ext"):
            return ev["m"] < self._targets()
        if op == "edit" and ev.get("how") == "nudge":
            return ev["m"] < self._targets() and len(self._mesh(ev["m"]).vertices) > 0
        if op in ("edit", "unmark"):
            if ev["m"] >= self._targets():
                return False
            m = self._mesh(ev["m"])
            if type(m).__name__ != "SurfaceMesh" or not len(m.faces):
                return False
            if op == "unmark":
                return bool(self.sw["complete_edges_from_faces"] and self.snapshot(m)["hard"])
            return True
        if op in ("save", "plant", "query"):
            if ev["m"] >= self._targets():
                return False
            if op == "query":
                return True
            if ev["path"] in self.files and (op == "plant" or self.files[ev["path"]]["fmt"] != ev["fmt"]):
                return False
            return self._fmt_ok(self.snapshot(self._mesh(ev["m"])), ev["fmt"])
        if op == "raw_extend":
            f_ = self.files.get(ev["path"])
            return f_ is not None and f_["fmt"] in ("obj", "off", "geogram_ascii") and bool(f_["expressed"]["faces"]) and not f_["expressed"]["cells"] and len(self.loaded) < 3
        if op in ("load", "xread"):
            if ev["path"] not in self.files:
                return False
            info = self.files[ev["path"]]
            if op == "load" and info["fmt"] == "stl" and not info["expressed"]["faces"]:
                return False  # (the C reader behind mouette aborts the interpreter on a zero-triangle STL: never handed to it)
            return op != "xread" or info["origin"] == "save"
        return True

    # ------------------------------------------------------------------ expectations
    def _expressed(self, fmt, snap, origin):
        """what the FILE expresses (data model of ref_codecs), given who wrote it"""
        mesh = {"vertices": snap["vertices"], "edges": snap["edges"], "faces": snap["faces"], "cells": snap["cells"], "attributes": snap["attributes"]}
        proj = RC.project(fmt, mesh)
        return proj

    def _expected_after_load(self, fmt, expressed):
        """normal (non-raw) load: completion derives faces from cells and edges from faces, exactly"""
        spec = {"points": expressed["vertices"], "edges": expressed["edges"], "faces": expressed["faces"], "cells": expressed["cells"]}
        return Normal(spec, self.sw["complete_edges_from_faces"], True)  # the completion switch in force when the file is loaded

    def _judge_loaded(self, op, fmt, path, mesh, info):
        """mesh = mouette.load(path); info = record of the file"""
        snap = info["snap"]
        ex = info["expressed"]
        ac = "%s/%s" % (fmt, info["origin"])
        got = self.snapshot(mesh)
        kind = info["kinds"]
        V = lambda clause, what, detail: self.violation(clause, op, "wrong_value", what, ac + "/" + kind, "%s: %s" % (path, detail))
        if fmt == "stl":
            # triangles as an ordered soup of float32 coordinate triples
            want = [[list(ex["vertices"][i]) for i in f] for f in ex["faces"]]
            have = [[list(got["vertices"][i]) for i in f] for f in got["faces"]]
            if len(have) != len(want) or any(not same_coords(a, b) for a, b in zip(have, want)):
                V("same-elements-same-vertex-order", "stl-triangles", "triangles (as float32 coordinate triples) %r, expected %r" % (have[:3], want[:3]))
            if got["class"] != "SurfaceMesh":
                V("class-its-content-implies", "class", "class %s for a file holding triangles" % got["class"])
            return
        nf = self._expected_after_load(fmt, ex)
        if not same_coords(got["vertices"], ex["vertices"]):
            bad = [i for i in range(min(len(got["vertices"]), len(ex["vertices"]))) if not same_coords([got["vertices"][i]], [ex["vertices"][i]])][:3]
            V("same-coordinates-bit-exact", "vertices", "%d vertices (expected %d); first differences at %r: %r vs %r" % (
                len(got["vertices"]), len(ex["vertices"]), bad, [got["vertices"][i] for i in bad], [ex["vertices"][i] for i in bad]))
        if got["class"] != nf.class_name:
            V("class-its-content-implies", "class", "loaded object is a %s, the content of the file implies %s" % (got["class"], nf.class_name))
        # faces: what the file expresses, same vertex order; then exactly the faces completion derives from the cells
        nd = len(ex["faces"])
        if got["faces"][:nd] != ex["faces"]:
            self.violation("same-elements-same-vertex-order", op, "wrong_value", "faces", ac + "/" + kind,
                           "%s: faces %r, the file expresses %r" % (path, got["faces"][:nd + 2][:8], ex["faces"][:8]))
        if sorted(key(f) for f in got["faces"]) != sorted(nf.face_keys):
            V("inexpressible-kinds-absent", "faces", "faces (as vertex sets) %r, expected %r" % (sorted(key(f) for f in got["faces"])[:10], sorted(nf.face_keys)[:10]))
        if got["cells"] != ex["cells"]:
            self.violation("same-elements-same-vertex-order", op, "wrong_value", "cells", ac + "/" + kind,
                           "%s: cells %r, the file expresses %r" % (path, got["cells"][:6], ex["cells"][:6]))
        # edges: those the file expresses + exactly those completion derives
        opt_ = [e for e in (ex.get("edges_opt") or []) if tuple(sorted(e)) not in set(nf.edge_keys)]
        if not edges_agree(got["edges"], nf.edge_keys, opt_):
            V("same-elements-same-vertex-order", "edges", "edges %r, expected (as a set) %r" % (sorted(map(tuple, got["edges"]))[:12], sorted(nf.edge_keys)[:12]))
        if nf.dim == 1 and [tuple(e) for e in got["edges"]] != [tuple(sorted(e)) for e in ex["edges"]]:
            V("same-elements-same-vertex-order", "edges", "polyline edges %r, the file expresses %r" % (got["edges"][:8], ex["edges"][:8]))
        # attributes (attribute-carrying format only)
        if fmt == "geogram_ascii":
            self._judge_attributes(op, path, ac, got["attributes"], ex["attributes"], kind)

    def _judge_attributes(self, op, path, ac, got, want, kind=""):
        for sname, attrs in want.items():
            for name, a in attrs.items():
                self.probes["attributes_roundtrip"] += 1
                g = got.get(sname, {}).get(name)
                ac2 = "%s/%s/%s/%d/%s" % (ac, sname, a["type"], a["arity"], kind)
                if g is None:
                    self.violation("attributes-come-back", op, "wrong_value", "attribute-missing", ac2, "%s: attribute %r on %s did not come back (have %r)" % (path, name, sname, sorted(got.get(sname, {}))))
                if g["type"] != a["type"] or g["arity"] != a["arity"]:
                    self.violation("attributes-come-back", op, "wrong_value", "attribute-type", ac2, "%s: attribute %r on %s came back as %s x %d, was %s x %d" % (path, name, sname, g["type"], g["arity"], a["type"], a["arity"]))
                if g["values"] != a["values"]:
                    bad = [i for i in range(min(len(g["values"]), len(a["values"]))) if g["values"][i] != a["values"][i]][:3]
                    self.violation("attributes-come-back", op, "wrong_value", "attribute-values", ac2, "%s: attribute %r on %s: %d values (expected %d), first differences at %r: %r vs %r" % (
                        path, name, sname, len(g["values"]), len(a["values"]), bad, [g["values"][i] for i in bad], [a["values"][i] for i in bad]))

    def _kinds(self, snap):
        """coarse, deterministic class of the mesh content (part of violation signatures)"""
        if snap["cells"]:
            return "hex" if any(len(c) == 8 for c in snap["cells"]) else "tet"
        if snap["faces"]:
            ar = {len(f) for f in snap["faces"]}
            return "tri" if ar == {3} else "quad" if ar <= {3, 4} else "polygon"
        return "polyline" if snap["edges"] else "points"

    # ------------------------------------------------------------------ step
    def step(self, ev):
        self.calls += 1
        M = self.M
        op = ev["op"]
        if op == "flip":
            self.sw[ev["key"]] = bool(ev["value"])
            setattr(M.config, ev["key"], bool(ev["value"]))
            self._pending_flip = True
            if not ev["value"]:
                self.probes["export_edges_off"] += 1
            return "flipped"
        if op in ("save_unknown_ext", "load_missing", "load_unknown_ext"):
            m = self._mesh(ev["m"])
            before, nfiles, nwrites = self.snapshot(m), len(self.fs.files), self.fs.writes
            if op == "save_unknown_ext":
                o = call(M.mesh.save, m, self.fs.root + "bad%d.xyz3" % self.nfile)
            elif op == "load_missing":
                o = call(M.mesh.load, self.fs.root + "missing%d.obj" % self.nfile)
            else:
                o = call(M.mesh.load, self.fs.root + "bad%d.foo" % self.nfile)
            self.faults["reject"] += 1
            if o.ok:
                self.violation("reject", op, "wrong_value", op, "", "a call that must be refused returned %r" % (type(o.value).__name__,))
            if self.snapshot(m) != before or len(self.fs.files) != nfiles or self.fs.writes != nwrites:
                self.violation("reject", op, "state_corrupted", op, "", "a refused call changed the mesh or wrote a file")
            return "rejected"
        if op == "query":
            m = self._mesh(ev["m"])
            self.probes["query_before_save"] += 1
            if ev["which"] == "border" and type(m).__name__ in ("SurfaceMesh", "VolumeMesh"):  # (no hasattr: it would evaluate the property)
                o = call(lambda: (m.boundary_vertices, m.interior_vertices))
            elif ev["which"] == "adjacency" and hasattr(m, "cells"):
                o = call(lambda: m.connectivity.cell_to_cell(0))
            elif hasattr(m, "edges"):
                o = call(lambda: M.attributes.degree(m))
            else:
                return "n/a"
            return o.brief()  # state perturber only (adds attributes to the mesh); never judged here
        if op == "raw_extend":
            info = self.files[ev["path"]]

            def build():
                raw = M.mesh.load(self.fs.root + ev["path"], raw=True)
                f0 = [int(x) for x in raw.faces[0]]
                raw.faces.append(f0[:3][::-1])  # a triangle on three vertices of the first face (other winding)
                return M.mesh.SurfaceMesh(raw)
            o = call(build)
            if not o.ok or o.value is None:
                return "raw-extend-failed:" + o.brief()  # (what the file holds is judged by the load / xread of that file, not here)
            try:
                sn_ = self.snapshot(o.value)
                RC.project("geogram_ascii", {"vertices": sn_["vertices"], "edges": sn_["edges"], "faces": sn_["faces"], "cells": sn_["cells"], "attributes": {}})
            except ValueError as e_:
                self.violation("loads-correctly" if info["origin"] == "plant" else "load-gives-back", "raw_extend", "wrong_value", "not-a-mesh",
                               "%s/%s/raw" % (info["fmt"], info["origin"]), "the raw data loaded from %s does not describe a mesh: %s" % (ev["path"], str(e_)[:160]))
            self.loaded.append(o.value)
            self.loaded_fmt.append("geogram_ascii")  # steer the next save of it to the format that writes corners from the corner container
            self._just_edited = len(self.meshes) + len(self.loaded) - 1
            self.probes["raw_data_extended"] += 1
            return "extended"
        if op == "edit":
            m = self._mesh(ev["m"])

            def edit():
                if ev["how"] == "nudge":
                    # one coordinate is changed IN PLACE, through the vector the container holds (no container method is involved)
                    v_ = m.vertices[ev["i"] % len(m.vertices)]
                    k_ = (ev["i"] >> 8) % 3
                    if isinstance(v_, np.ndarray) and v_.dtype.kind == "f":
                        v_[k_] = float(v_[k_]) * 0.5 + 0.375
                    return
                with M.mesh.SurfaceSubdivision(m) as ed:
                    if ev["how"] == "triangulate":
                        ed.triangulate()
                    else:
                        ed.split_face_as_fan(ev["i"] % len(m.faces))
            o = call(edit)
            self.probes["edited_then_saved"] += 1
            return o.brief() if not o.ok else "edited"  # (what an editing block does is another property's business: the mesh is saved as it stands)
        if op == "unmark":
            m = self._mesh(ev["m"])
            hard = self.snapshot(m)["hard"]
            e = hard[ev["i"] % len(hard)]
            m.edges.get_attribute("hard_edges")[e] = False  # the entry stays stored, with the value False
            self.probes["edge_unmarked"] += 1
            return "unmarked %d" % e
        if op == "save":
            m = self._mesh(ev["m"])
            fmt = ev["fmt"]
            ign = [k for k in ev.get("ignore", []) if hasattr(m, k)]
            if "faces" in ign and hasattr(m, "cells") and "cells" not in ign:
                ign.remove("faces")  # (a volume without its faces but with its cells is not a meaningful request)
            full_kind = self._kinds(self.snapshot(m)) if ign else None
            if ign:
                # save(..., ignore_elements=...) empties the containers it is handed: it is given a deep copy, so that the pool survives
                m = M.mesh.copy(m, copy_attributes=True)
                self.probes["ignore_elements"] += 1
            snap = self.snapshot(m)
            for k in ign:
                snap[k] = []
                for sname in {"edges": ["edges"], "faces": ["faces", "face_corners"], "cells": ["cells", "cell_corners", "cell_faces"]}[k]:
                    snap["attributes"].pop(sname, None)
                if k == "edges":
                    snap["hard"] = None
            kinds = self._kinds(snap) if not ign else "ign[%s]/%s" % (",".join(ign), full_kind)
            if ev["m"] >= len(self.meshes):
                self.probes["resave_after_load"] += 1
            overwrite = ev["path"] in self.files
            if overwrite:
                self.probes["overwrite"] += 1
            nwrites = self.fs.writes
            o = call(M.mesh.save, m, self.fs.root + ev["path"], set(ign)) if ign else call(M.mesh.save, m, self.fs.root + ev["path"])
            ac = "%s/%s" % (fmt, kinds)
            if not o.ok or (self.fs.root + ev["path"]) not in self.fs.files or self.fs.writes == nwrites:
                if not o.ok:
                    self.exc_violation("every-mesh-every-writable-format", "save", o, ac, "save(%s mesh, %r) raised" % (kinds, ev["path"]))
                self.violation("every-mesh-every-writable-format", "save", "wrong_value", "no-file", ac + ("/overwrite" if overwrite else ""),
                               "save(%s mesh, %r) wrote nothing%s" % (kinds, ev["path"], " (the file written earlier is still there)" if overwrite else ""))
            self.nfile += 1
            ex = self._expressed(fmt, snap, "save")
            hard = None if snap["hard"] is None else [snap["edges"][i] for i in snap["hard"]]
            if fmt == "obj":
                # documented dialect of the exporter: `l` records only while export_edges_in_obj; all edges of a polyline (or of anything
                # while completion is off: nothing could derive them again), otherwise the declared (hard) edges - the others are sides of faces
                if not self.sw["export_edges_in_obj"]:
                    ex = dict(ex, edges=[])
                elif snap["faces"] and self.sw["complete_edges_from_faces"]:
                    ex = dict(ex, edges=hard if hard is not None else [])
            elif fmt == "mesh" and hard is not None:
                ex = dict(ex, edges=hard)
            if hard is not None and snap.get("unmarked") and ex["edges"] is hard:
                # an un-marked edge is a side of a face: listing it or not means the same mesh (the flag is not part of the formats)
                ex = dict(ex, edges_opt=[snap["edges"][i] for i in snap["unmarked"]])
            if ex.get("edges_opt"):
                # which of the optional (un-marked) edges the exporter chose to list is read off the file once, by the independent reader:
                # from here on the file's content is judged exactly
                try:
                    seen = RC.core(RC.read(fmt, self.fs.files[self.fs.root + ev["path"]]))
                except RC.FormatError:
                    seen = None  # (not well formed: the cross-read / load of this file reports it)
                if seen is not None and edges_agree(seen["edges"], ex["edges"], ex["edges_opt"]):
                    ex = {k_: v_ for k_, v_ in ex.items() if k_ != "edges_opt"}
                    ex["edges"] = [list(e) for e in seen["edges"]]
            self.files[ev["path"]] = {"fmt": fmt, "snap": snap, "expressed": ex, "origin": "save", "kinds": kinds}
            self._steer = (ev["m"], "geogram_ascii") if (fmt == "mesh" and not ign and "geogram_ascii" in self.cfg["formats"]) else None
            self.seq.append("save:" + fmt)
            if fmt == "stl":
                self.probes["stl"] += 1
                if not snap["faces"]:
                    self.probes["faceless_stl"] += 1
            if any(len(f) > 4 for f in snap["faces"]) and fmt in ("mesh", "stl"):
                self.probes["polygon_to_triangle_format"] += 1
            if self._pending_flip:
                self.faults["config_flip"] += 1
                self._pending_flip = False
            return "saved"
        if op == "plant":
            m = self._mesh(ev["m"])
            fmt = ev["fmt"]
            snap = self.snapshot(m)
            mesh = {"vertices": snap["vertices"], "edges": snap["edges"], "faces": snap["faces"], "cells": snap["cells"], "attributes": snap["attributes"]}
            ex = RC.project(fmt, mesh)
            dia = dict(ev.get("dialect") or {})
            vextra = dia.pop("vextra", None)
            multi = dia.pop("multi_solid", None)
            fcol = dia.pop("face_colours", None)
            data = RC.write(fmt, ex, seed=ev["pseed"], **ev["opts"], **dia)
            if vextra:
                import re
                data = re.sub(rb"(?m)^(v[ \t]+\S+[ \t]+\S+[ \t]+\S+)", rb"\1 0.5 0.25 1" if vextra == "rgb" else rb"\1 1.0", data)
            if fcol:
                def colour(line):
                    body = line.split(b"#", 1)[0]
                    t = body.split()
                    if len(t) >= 4 and all(x.isdigit() for x in t) and int(t[0]) == len(t) - 1 and int(t[0]) >= 3:
                        return body.rstrip() + b" 255 128 0" + line[len(body.rstrip()):]
                    return line
                data = b"".join(colour(l) for l in data.splitlines(keepends=True))
            if multi and data.count(b"endfacet") >= 2:
                # close the solid after the first half of the facets and open a second one (many writers emit one solid per part)
                parts = data.split(b"endfacet")
                h = len(parts) // 2
                nl = b"\r\n" if b"\r\n" in data else b"\n"
                data = b"endfacet".join(parts[:h]) + b"endfacet" + nl + b"endsolid ref" + nl + b"solid second" + b"endfacet".join(parts[h:])
            for k_ in (ev.get("dialect") or {}):
                self.probes["dialect_" + k_] += 1
            self.fs.files[self.fs.root + ev["path"]] = data
            self.nfile += 1
            try:
                told = RC.core(RC.read(fmt, data)) if fmt != "stl" else ex
            except RC.FormatError as e_:
                # the pooled mesh itself is not a mesh any more (e.g. it came out of an earlier faulty load: element indices out of range), so
                # the independent writer cannot express it: nothing is planted; the fault is reported where it arose (load / cross-read)
                self.fs.files.pop(self.fs.root + ev["path"], None)
                return "unplantable: %s" % (str(e_)[:80],)
            self.files[ev["path"]] = {"fmt": fmt, "snap": snap, "expressed": told, "origin": "plant", "kinds": self._kinds(snap)}
            for p in ev["opts"]:
                self.probes[p] += 1
            if ev["opts"]:
                self.faults["lexical"] += 1
            self.seq.append("plant:" + fmt)
            return "planted"
        if op == "xread":
            info = self.files[ev["path"]]
            fmt = info["fmt"]
            self.probes["cross_read"] += 1
            self.njudged += 1
            self.seq.append("xread:" + fmt)
            ac = "%s/%s" % (fmt, info["kinds"])
            try:
                got = RC.core(RC.read(fmt, self.fs.files[self.fs.root + ev["path"]]))
            except RC.FormatError as e:
                self.violation("means-the-same-to-an-independent-reader", "xread", "wrong_value", "unreadable", ac,
                               "%s written by mouette is not a well-formed %s file for an independent reader: %s" % (ev["path"], fmt, e))
            ex = info["expressed"]
            V = lambda what, detail: self.violation("means-the-same-to-an-independent-reader", "xread", "wrong_value", what, ac, "%s: %s" % (ev["path"], detail))
            if fmt == "stl":
                want = [[ex["vertices"][i] for i in f] for f in ex["faces"]]
                have = [[got["vertices"][i] for i in f] for f in got["faces"]]
                if len(have) != len(want) or any(not same_coords(a, b) for a, b in zip(have, want)):
                    V("stl-triangles", "an independent reader sees triangles %r, the mesh has %r" % (have[:3], want[:3]))
                return "ok"
            if not same_coords(got["vertices"], ex["vertices"]):
                V("vertices", "an independent reader sees %d vertices %r..., the mesh has %d %r..." % (len(got["vertices"]), got["vertices"][:2], len(ex["vertices"]), ex["vertices"][:2]))
            if got["faces"] != ex["faces"]:
                V("faces", "an independent reader sees faces %r, the mesh has (within the format's vocabulary) %r" % (got["faces"][:8], ex["faces"][:8]))
            if got["cells"] != ex["cells"]:
                V("cells", "an independent reader sees cells %r, the mesh has %r" % (got["cells"][:6], ex["cells"][:6]))
            if not edges_agree(got["edges"], ex["edges"], ex.get("edges_opt")):
                V("edges", "an independent reader sees edges %r, expected %r (optional: %r)" % (got["edges"][:10], ex["edges"][:10], ex.get("edges_opt")))
            if fmt == "geogram_ascii":
                self._judge_attributes("xread", ev["path"], "geogram_ascii/xread", got["attributes"], ex["attributes"], info["kinds"])
            return "ok"
        if op == "load":
            info = self.files[ev["path"]]
            fmt = info["fmt"]
            self.probes["save_load" if info["origin"] == "save" else "cross_write_load"] += 1
            self.njudged += 1
            self.seq.append("load:%s:%s" % (fmt, info["origin"]))
            if ev.get("raw") and fmt != "stl":
                # load(raw=True): the bare content of the file, before any completion - "element kinds a format cannot express are absent"
                self.probes["raw_load"] += 1
                o = call(M.mesh.load, self.fs.root + ev["path"], None, True)
                ac = "%s/%s/raw/%s" % (fmt, info["origin"], info["kinds"])
                if not o.ok:
                    self.exc_violation("loads-correctly" if info["origin"] == "plant" else "load-gives-back", "load", o, ac, "load(%r, raw=True) raised" % ev["path"])
                raw, ex = o.value, info["expressed"]
                gotV = [[float(x) for x in v] for v in raw.vertices]
                got = {"edges": sorted(tuple(sorted(int(x) for x in e)) for e in raw.edges), "faces": [[int(x) for x in f] for f in raw.faces],
                       "cells": [[int(x) for x in c_] for c_ in raw.cells]}
                want = {"edges": sorted(tuple(sorted(e)) for e in ex["edges"]), "faces": ex["faces"], "cells": ex["cells"]}
                if not same_coords(gotV, ex["vertices"]):
                    self.violation("same-coordinates-bit-exact", "load", "wrong_value", "vertices", ac, "%s: raw vertices differ from what the file expresses" % ev["path"])
                for kk in ("edges", "faces", "cells"):
                    if (got[kk] != want[kk]) if kk != "edges" else (not edges_agree(got[kk], want[kk], ex.get("edges_opt"))):
                        self.violation("inexpressible-kinds-absent" if len(got[kk]) > len(want[kk]) else "same-elements-same-vertex-order", "load", "wrong_value", kk, ac,
                                       "%s: raw %s %r, the file expresses %r" % (ev["path"], kk, got[kk][:8], want[kk][:8]))
                return "ok"
            o = call(M.mesh.load, self.fs.root + ev["path"])
            ac = "%s/%s/%s" % (fmt, info["origin"], info["kinds"])
            if not o.ok:
                pert = "+".join(sorted(ev.get("opts", {}))) if False else ""
                self.exc_violation("loads-correctly" if info["origin"] == "plant" else "load-gives-back", "load", o, ac, "load(%r) raised" % ev["path"])
            self._judge_loaded("load", fmt, ev["path"], o.value, info)
            if ev.get("keep") and len(self.loaded) < 3 and o.value is not None:
                self.loaded.append(o.value)
                self.loaded_fmt.append(fmt)
                self._just_loaded = len(self.meshes) + len(self.loaded) - 1
            return "ok"
        raise ValueError(op)

    def nontrivial(self):
        return self.nfile >= 1 and self.njudged >= 1

    def class_key(self):
        return "%s|%s" % (",".join(sorted(s["kind"] for s in self.cfg["world"]["meshes"])), ">".join(self.seq[:6]))


SIM = C04
