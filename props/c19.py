"""C19 - samplers stay on their domain; Bezier = Bernstein.

World (all explicit in cfg["world"]): 1-3 polylines, 1-3 triangulated surfaces, 2-4 boxes (d = 1..5),
1-3 Bezier curves, 1-2 Bezier patches.  Clients sharing the process-global numpy PRNG:
  samplerA / samplerB : sample_sphere / sample_ball / sample_AABB / sample_polyline / sample_surface
  sharer              : (runs with a share test) bulk draws on ONE non-degenerate polyline / surface
  bezier              : evaluate / ends / corners / as_polyline / as_surface on shared curve / patch objects
  noise     (faulted) : consumes the global PRNG between sampler calls (np.random.*, Vec.random)
  rejector  (faulted) : Bezier evaluations with a parameter outside [0,1] - must be refused
PRNG seam: faulted runs are 'shared_stream' (seeded once, left to flow: every sampler starts wherever the
others left the stream); fault-free runs are 'per_call' (mostly) or 'shared_stream' without the noise client.

Every oracle clause quotes the fragment of the property statement it implements (CLAUSES)."""
import math

import numpy as np
from scipy.stats import chi2 as _chi2

from sim.engine import Sim, call, canon
from models import surfgen
from models.ref_bezier import (RefSegments, RefTriangles, bernstein_curve, bernstein_patch, chi2_pooled,
                               flat_points, max_abs, nearest_perfect_powers, quality)

CLAUSES = {
    "exact-count": "Every sampler returns exactly the requested number of points (the nearest perfect power in grid mode)",
    "valid-parameters-accepted": "Every sampler returns ... for all of its parameters (a call on in-domain parameters must not raise)",
    "within-box": "within the box in both modes",
    "on-sphere": "on the sphere of the given centre and radius",
    "inside-ball": "inside the ball of the given centre and radius",
    "on-polyline-edge": "on an edge of the polyline",
    "inside-surface-face": "inside a face of the surface",
    "face-normal": "(with that face's normal when normals are requested)",
    "share-follows-length": "over many draws the share of samples per edge ... follows length",
    "share-follows-area": "over many draws the share of samples per ... face follows ... area",
    "bernstein": "Bezier curves and patches evaluate to the Bernstein polynomial of their control points",
    "end-interpolation": "interpolate end (corner) control points",
    "convex-hull": "stay in the control points' convex hull (checked in the implied form: axis-aligned bounding box)",
    "reject-out-of-range": "reject parameters outside [0,1]",
    "export-count": "their polyline/surface exports ... for any sample counts (n, resp. n1*n2 vertices)",
    "export-in-range": "exports have in-range ... indices for any sample counts, equal or not",
    "export-grid-consistent": "exports have ... grid-consistent indices for any sample counts, equal or not",
    "export-vertex-value": "exports: vertex k is the curve/patch evaluated at its grid parameter",
}

EPS = 2.220446049250313e-16
SAMPLER_OPS = ["sphere", "ball", "aabb", "polyline", "surface"]
BEZIER_OPS = ["curve_eval", "curve_ends", "patch_eval", "patch_corners", "as_polyline", "as_surface"]
NOISE_OPS = ["np_random", "np_normal", "np_randint", "np_choice", "np_uniform", "vec_random"]
MAX_DRAWS = 20000
CHI2_P = 1e-12
CHI2_MIN_DRAWS = 5000

PLACEHOLDER = {
    "polylines": {"points": [[0.0, 0.0, 0.0], [1.0, 0.0, 0.0]], "edges": [[0, 1]], "tiny": 1},
    "surfaces": {"points": [[0.0, 0.0, 0.0], [1.0, 0.0, 0.0], [0.0, 1.0, 0.0]], "faces": [[0, 1, 2]], "tiny": 1},
    "boxes": {"mini": [0.0], "maxi": [1.0], "tiny": 1},
    "curves": {"P": [[0.0, 0.0, 0.0]], "tiny": 1},
    "patches": {"P": [[[0.0, 0.0, 0.0]]], "tiny": 1},
}


# ---------------------------------------------------------------------------------------------
# world generators (simulator-owned randomness only)
# ---------------------------------------------------------------------------------------------
def _rot(rng):
    """random rotation matrix (Gram-Schmidt on gaussian vectors), as nested lists"""
    while True:
        a = [rng.gauss() for _ in range(3)]
        b = [rng.gauss() for _ in range(3)]
        na = math.sqrt(sum(x * x for x in a))
        if na < 1e-3:
            continue
        a = [x / na for x in a]
        d = sum(x * y for x, y in zip(a, b))
        b = [y - d * x for x, y in zip(a, b)]
        nb = math.sqrt(sum(x * x for x in b))
        if nb < 1e-3:
            continue
        b = [x / nb for x in b]
        c = [a[1] * b[2] - a[2] * b[1], a[2] * b[0] - a[0] * b[2], a[0] * b[1] - a[1] * b[0]]
        return [a, b, c]


def _apply(points, R, s, T):
    out = []
    for p in points:
        q = [sum(R[k][j] * p[j] for j in range(3)) for k in range(3)] if R is not None else list(p)
        out.append([s * q[k] + T[k] for k in range(3)])
    return out


def _placement(rng, X, h):
    """scale s and translation T for a unit-ish world of extent X and smallest altitude h such that
    afterwards max|coord| <= 1e4 and max|coord| / altitude <= 1e5 (conditioning of the barycentric test)"""
    s = 10.0 ** rng.choice([-5, -4, -2, -1, 0, 0, 0, 1, 2, 3])  # down to edge lengths ~1e-5: areas ~1e-10 are areas all the same
    while s * X > 5000.0:
        s /= 10.0
    tmax = min(5000.0, 1e5 * s * h - s * X) if h is not None else 5000.0
    cands = [t for t in (0.0, 1.0, 30.0, 1000.0, 5000.0) if t <= tmax] or [0.0]
    t = rng.choice(cands)
    T = [rng.uniform(-t, t) for _ in range(3)]
    return s, T


def gen_polyline(rng):
    kind = rng.wchoice(["chain", "loop", "star", "tree", "multi", "single", "regular"], [4, 3, 2, 2, 3, 1, 2])
    if kind == "regular":
        # edges of exactly equal length (a lattice path / the unit square): n * length / total is then an exact integer for many n
        if rng.chance(0.5):
            pts = [[0.0, 0.0, 0.0], [1.0, 0.0, 0.0], [1.0, 1.0, 0.0], [0.0, 1.0, 0.0]]
            edges = [[0, 1], [1, 2], [2, 3], [3, 0]]
        else:
            m = rng.randint(2, 6)
            pts = [[float(i), 0.0, 0.0] for i in range(m + 1)]
            edges = [[i, i + 1] for i in range(m)]
        k = rng.choice([1.0, 2.0, 0.5, 4.0])
        pts = [[k * c for c in p] for p in pts]
        return {"points": pts, "edges": edges, "kind": kind}

    def part(k, base):
        n = {"single": 2, "chain": rng.randint(3, 9), "loop": rng.randint(3, 9), "star": rng.randint(4, 8), "tree": rng.randint(4, 10)}[k]
        ids = [base + i for i in range(n)]
        if k in ("single", "chain"):
            e = [[ids[i], ids[i + 1]] for i in range(n - 1)]
        elif k == "loop":
            e = [[ids[i], ids[(i + 1) % n]] for i in range(n)]
        elif k == "star":
            e = [[ids[0], ids[i]] for i in range(1, n)]
        else:
            e = [[ids[rng.below(i)], ids[i]] for i in range(1, n)]
        return n, e

    if kind == "multi":
        nv, edges = 0, []
        for _ in range(rng.randint(2, 3)):
            n, e = part(rng.choice(["chain", "loop", "star", "single"]), nv)
            nv += n
            edges += e
    else:
        nv, edges = part(kind, 0)
    planar = rng.chance(0.25)
    stretch = [rng.choice([1.0, 1.0, 0.2, 5.0]) for _ in range(3)]
    for _attempt in range(20):
        pts = [[stretch[k] * rng.gauss() for k in range(3)] for _ in range(nv)]
        if planar:
            pts = [[p[0], p[1], 0.0] for p in pts]
        lens = [math.dist(pts[a], pts[b]) for a, b in edges]
        if min(lens) > 1e-3:
            break
    else:  # practically unreachable
        pts = [[float(i), float(i * i % 3), 0.0] for i in range(nv)]
    X = max(abs(c) for p in pts for c in p)
    s, T = _placement(rng, X, None)
    pts = _apply(pts, None, s, T)
    edges = [e if rng.chance(0.5) else [e[1], e[0]] for e in edges]
    rng.shuffle(edges)
    return {"points": pts, "edges": edges, "kind": kind}


def gen_heightfield(rng, nx=None, ny=None):
    """non-uniform planar grid lifted to z = f(x, y), split into triangles with a random diagonal per cell, then
    rotated / scaled / translated.  The projection along the (rotated) z axis is injective, so no two faces overlap in
    space: every sample has exactly one containing face (up to shared edges)."""
    nx = nx or rng.randint(1, 5)
    ny = ny or rng.randint(1, 5)
    xs, ys = [0.0], [0.0]
    for _ in range(nx):
        xs.append(xs[-1] + rng.choice([0.3, 0.5, 1.0, 1.0, 2.0]) * rng.uniform(0.7, 1.3))
    for _ in range(ny):
        ys.append(ys[-1] + rng.choice([0.3, 0.5, 1.0, 1.0, 2.0]) * rng.uniform(0.7, 1.3))
    a, b, c = rng.uniform(-0.5, 0.5), rng.uniform(-0.5, 0.5), rng.choice([0.0, 0.1, 0.3])
    pts = [[x, y, a * x + b * y + c * x * y / (1.0 + x + y)] for y in ys for x in xs]
    vid = lambda i, j: j * (nx + 1) + i
    faces = []
    for j in range(ny):
        for i in range(nx):
            q = [vid(i, j), vid(i + 1, j), vid(i + 1, j + 1), vid(i, j + 1)]
            if rng.chance(0.5):
                faces += [[q[0], q[1], q[2]], [q[0], q[2], q[3]]]
            else:
                faces += [[q[0], q[1], q[3]], [q[1], q[2], q[3]]]
    faces = [f[k:] + f[:k] for f in faces for k in [rng.below(3)]]
    rng.shuffle(faces)
    pts = _apply(pts, _rot(rng), 1.0, [0.0, 0.0, 0.0])
    X, h = quality(pts, faces)
    s, T = _placement(rng, X, h)
    return {"points": _apply(pts, None, s, T), "faces": faces, "kind": "heightfield"}


def gen_tri_surface(rng, tier):
    """a generated oriented manifold triangulated surface (models/surfgen), placed so that the containment test is
    well conditioned; falls back to a height field if the candidate has sliver triangles"""
    if rng.chance(0.3):
        return gen_heightfield(rng)
    size = rng.choice([2, 6, 12, 25, 40] if tier == "quick" else [2, 6, 12, 25, 40, 60, 100])
    for attempt in range(4):
        pts, faces = surfgen.gen_surface(rng.fork(("surf", attempt)), size, tri_only=True)
        if any(len(f) != 3 for f in faces):
            continue
        pts = [list(map(float, p)) for p in pts]
        X, h = quality(pts, faces)
        if X > 0 and h / X >= 1e-3:
            s, T = _placement(rng, X, h)
            return {"points": _apply(pts, None, s, T), "faces": [list(f) for f in faces], "kind": "surfgen"}
    return gen_heightfield(rng)


def gen_box(rng, d=None):
    d = d or rng.wchoice([1, 2, 3, 4, 5], [2, 4, 4, 2, 2])
    kind = rng.wchoice(["unit", "sym", "generic"], [1, 1, 8])
    if kind == "unit":
        return {"mini": [0.0] * d, "maxi": [1.0] * d}
    if kind == "sym":
        r = 10.0 ** rng.randint(-2, 3)
        return {"mini": [-r] * d, "maxi": [r] * d}
    mini, maxi = [], []
    for _ in range(d):
        m = rng.choice([0.0, rng.uniform(-1, 1), rng.uniform(-100, 100), rng.uniform(-5000, 5000)])
        sp = 10.0 ** rng.uniform(-3, 3)
        mini.append(m)
        maxi.append(m + sp)
    return {"mini": mini, "maxi": maxi}


def _gen_boxes(wr, n, twin):
    """n boxes; with `twin`, the second has the dimension of the first (two different boxes sampled with the same grid resolution)"""
    out = [gen_box(wr.fork(("bx", i))) for i in range(n)]
    if twin and n >= 2:
        out[1] = gen_box(wr.fork(("bx", "twin")), d=len(out[0]["mini"]))
    return out


def _ctrl_point(rng, dim, scale, off):
    return [off[k] + scale * rng.uniform(-1, 1) for k in range(dim)]


def _ctrl_frame(rng, dim):
    scale = 10.0 ** rng.choice([-3, -1, 0, 0, 0, 1, 2, 3])
    o = rng.choice([0.0, 0.0, 1.0, 100.0, 5000.0])
    off = [rng.uniform(-o, o) for _ in range(dim)]
    return scale, off


def _maybe_int(rng, P):
    """a control net typed by hand: every coordinate an integer (ints, not floats)"""
    if not rng.chance(0.2):
        return P, False

    def conv(x):
        return [conv(y) for y in x] if isinstance(x, list) else int(round(x * 3)) + 0
    Q = conv(P)
    return Q, True


def gen_curve(rng):
    dim = rng.wchoice([1, 2, 3, 4], [1, 3, 4, 1])
    deg = rng.wchoice([0, 1, 2, 3, 4, 5, 6, 8], [1, 2, 3, 4, 2, 2, 1, 1])
    scale, off = _ctrl_frame(rng, dim)
    P, integer = _maybe_int(rng, [_ctrl_point(rng, dim, max(scale, 1.0), off) for _ in range(deg + 1)])
    if not integer:
        P = [_ctrl_point(rng, dim, scale, off) for _ in range(deg + 1)]
    return {"P": P, "int": integer}


def gen_patch(rng):
    dim = rng.wchoice([1, 2, 3, 4], [1, 1, 7, 1])
    m, n = rng.randint(0, 4), rng.randint(0, 4)
    if rng.chance(0.3):
        n = m
    scale, off = _ctrl_frame(rng, dim)
    P, integer = _maybe_int(rng, [[_ctrl_point(rng, dim, max(scale, 1.0), off) for _ in range(n + 1)] for _ in range(m + 1)])
    if not integer:
        P = [[_ctrl_point(rng, dim, scale, off) for _ in range(n + 1)] for _ in range(m + 1)]
    return {"P": P, "int": integer}


def _radius_class(r):
    return "radius<1" if r < 1 else ("radius>1" if r > 1 else "radius==1")


def _dec_param(x):
    return float(x) if isinstance(x, str) else x


# ---------------------------------------------------------------------------------------------
class C19(Sim):
    PROP = "C19"
    RULE = ("one run = one explicit world (polylines, triangulated surfaces, boxes d=1..5, Bezier curves and patches) "
            "driven by 2-6 seeded clients (samplerA/B, sharer, bezier[, noise, rejector]) that share the process-global "
            "numpy PRNG under a bursty seeded scheduler; per-step oracles: count, domain membership, normals, "
            "Bernstein form, interpolation, bounding box, export topology; per-run oracle: one chi-square share test "
            "(>= 5000 draws, p = 1e-12) on a non-degenerate world; distinct = distinct (PRNG mode, enabled op kinds, "
            "share-test kind, box dimensions, interleaving hash); non-trivial = >= 2 judged library calls of which at "
            "least one drew samples or evaluated a Bezier object")
    FAULT_KINDS = ["prng_handover", "reject"]
    PROBES = ["radius<1", "radius>1", "grid_nonperfect_power", "grid_perfect_power", "box_dim>=4", "point_cloud_return",
              "normals_requested", "single_edge_polyline", "single_face_surface", "multi_component_polyline", "n1!=n2", "n1==n2",
              "chi2_test_run", "chi2_polyline", "chi2_surface", "box_moved_by_caller", "many_small_draws", "caller_edits_returned_value", "ctrl_point_replaced", "t_out_of_range", "t_endpoint", "degree0", "patch_nonsquare_net",
              "shared_stream_run", "large_centre", "measured_then_deformed", "integer_control_net", "zero_area_face"]
    QUICK_RUNS = 3000
    THOROUGH_RUNS = 300000
    BLOCK = 20
    ASSUMPTIONS = [
        "inputs are finite and moderate: |coordinates| <= 1e4, radii in [1e-3, 1e3], 0 <= count <= 2000 per call, <= 20000 draws per run",
        "boxes have strictly positive extent in every dimension (AABB.is_empty() is documented to make sample_AABB fail)",
        "sphere/ball centres are 3-D (the samplers are documented as 3D); centres are passed as mouette.Vec or numpy arrays",
        "point-cloud return is requested for boxes of dimension <= 3 only (dimension > 3 is documented to raise)",
        "polylines have >= 1 edge, all edges of positive length; surfaces are triangulated, oriented, with smallest altitude >= 1e-5 * max|coordinate| "
        "(keeps the float64 error of the barycentric test, ~eps*S/h, 20x below its 1e-9 tolerance)",
        "grid mode: 'nearest perfect power' is accepted under both readings (nearest root, nearest value); a perfect power admits only itself",
        "share test only on worlds where no two edges/faces overlap in space (generic 3-D polylines; rotated height fields); samples are attributed "
        "to the nearest edge / the containing face; chi-square with cells of expected count < 5 pooled, threshold chi2.isf(1e-12, dof)",
        "face normal = unit vector along (B-A)x(C-A) for a face (A,B,C) (right-hand rule of the oriented face)",
        "patch parametrisation: either convention (u along a row of the net, or u across rows) is accepted, but one run must use one convention; "
        "the parameter of an exported vertex is the one the export itself records (attributes 't' / 'uv_coords'), which must form the regular grid linspace(0,1,n)",
        "exported surface cells may be one quad or two triangles per grid cell, any orientation",
        "rejected parameters are at least 1e-9 outside [0,1] (no claim about the last ulp), finite, infinite or NaN (not a member of [0,1] either); any Exception counts as a rejection",
        "faults_on is drawn in gen_config (p = 1/2) instead of taken from the seed's parity, because the PRNG mode (engine key 'prng_mode') must be "
        "'shared_stream' exactly in the faulted runs and gen_config does not see the seed; fault-free runs are 'per_call' (3/4) or 'shared_stream' without noise (1/4)",
        "Bezier exports: control points of dimension 2 or 3 for as_polyline (2-D is documented by the code to be padded with z=0), dimension 3 for as_surface",
    ]
    COMPONENTS = {"real": ["mouette.sampling", "mouette.splines.bezier", "mouette.geometry.AABB/Vec", "mouette.attributes (edge_length, face_area, face_normals)",
                           "mouette.mesh (PolyLine, SurfaceMesh, PointCloud)", "numpy (incl. numpy.random global generator)"],
                  "stub": ["seeding of the global PRNGs (numpy.random, random): per call from (run seed, event uid), or once per run"]}

    # ================================================================== configuration / world
    def gen_config(self, rng, tier):
        # The fault plan (noise + rejector clients) and the PRNG mode must be decided together and gen_config does not see
        # the seed's parity, so faults_on is drawn here (engine: cfg.setdefault("faults_on", ...) respects it).
        faults_on = rng.chance(0.5)
        prng_mode = "shared_stream" if faults_on else rng.wchoice(["per_call", "shared_stream"], [3, 1])
        wr = rng.fork("world")
        world = {
            "polylines": [gen_polyline(wr.fork(("pl", i))) for i in range(rng.randint(1, 3))],
            "surfaces": [gen_tri_surface(wr.fork(("sf", i)), tier) for i in range(rng.randint(1, 3))],
            "boxes": _gen_boxes(wr, rng.randint(2, 4), rng.chance(0.5)),
            "curves": [gen_curve(wr.fork(("cv", i))) for i in range(rng.randint(1, 3))],
            "patches": [gen_patch(wr.fork(("pt", i))) for i in range(rng.randint(1, 2))],
        }
        ops = rng.subset(SAMPLER_OPS, 0.4, at_least=1)
        bops = rng.subset(BEZIER_OPS, 0.45, at_least=1)
        clients = ["samplerA"]
        if rng.chance(0.6):
            clients.append("samplerB")
        if rng.chance(0.7):
            clients.append("bezier")
        chi2 = None
        max_steps = rng.randint(4, 24)
        if rng.chance(0.2):
            kind = rng.choice(["polyline", "surface"])
            if kind == "polyline":
                # generic 3-D polylines from gen_polyline never have overlapping edges; use a fresh one with >= 3 edges
                for a in range(8):
                    pl = gen_polyline(wr.fork(("chi-pl", a)))
                    if len(pl["edges"]) >= 3:
                        break
                world["polylines"].append(pl)
                chi2 = {"kind": "polyline", "w": len(world["polylines"]) - 1}
            else:
                sf = gen_heightfield(wr.fork("chi-sf"), rng.randint(2, 5), rng.randint(1, 4))
                if rng.chance(0.4):
                    # a zero-area face (a vertex listed twice) somewhere in the face list: it must never receive a sample and must not
                    # disturb the shares of the others.  (Normals are not requested on this surface: a zero-area face has none.)
                    f0 = sf["faces"][rng.below(len(sf["faces"]))]
                    sf["faces"].insert(rng.below(len(sf["faces"]) + 1), [f0[0], f0[0], f0[1]])
                    sf["degenerate"] = True
                world["surfaces"].append(sf)
                chi2 = {"kind": "surface", "w": len(world["surfaces"]) - 1}
            chi2["target"] = rng.randint(CHI2_MIN_DRAWS, 7000)
            if rng.chance(0.3):
                # the same share, collected from MANY SMALL draws (1-3 points per call): "over many draws" does not say the draws are large
                chi2["style"], chi2["target"] = "small", rng.randint(1500, 2400)
            clients.append("sharer")
            max_steps = rng.randint(8, 24)
        return {"ctrl_edits": rng.chance(0.4), "stale_attrs": rng.chance(0.35), "faults_on": faults_on, "prng_mode": prng_mode, "world": world, "ops": ops, "bops": bops, "clients": clients,
                "chi2": chi2, "max_steps": max_steps, "burst": rng.choice([0.2, 0.5, 0.8]),
                "noise_rate": rng.choice([0.5, 1.0, 2.0]), "reject_rate": rng.choice([0.3, 0.6]),
                "big_n": rng.chance(0.25)}

    def shrink_cfgs(self, cfg):
        """replace one world object at a time by a minimal placeholder (indices stay valid)"""
        for key in ("surfaces", "polylines", "patches", "curves", "boxes"):
            for i, w in enumerate(cfg["world"][key]):
                if w.get("tiny"):
                    continue
                c = dict(cfg)
                c["world"] = dict(cfg["world"])
                c["world"][key] = list(cfg["world"][key])
                c["world"][key][i] = dict(PLACEHOLDER[key])
                yield c

    def start(self, cfg):
        import mouette as M
        from mouette import sampling
        from mouette.mesh.mesh_data import RawMeshData
        self.M, self.S = M, sampling
        w = cfg["world"]
        self.polylines, self.segs = [], []
        for pl in w["polylines"]:
            data = RawMeshData()
            data.vertices += [list(p) for p in pl["points"]]
            for e in pl["edges"]:
                data.edges.append(tuple(e))
            plm = M.mesh.PolyLine(data)
            if cfg.get("stale_attrs"):
                for i, p in enumerate(pl["points"]):
                    plm.vertices[i] = M.Vec([3.0 * p[0] + 0.5 * p[1], 0.25 * p[1], p[2] + p[0]])
                call(M.attributes.edge_length, plm)
                call(sampling.sample_polyline, plm, 3)  # ... and SAMPLED in that shape (never judged): nothing of it may survive the deformation
                for i, p in enumerate(pl["points"]):
                    plm.vertices[i] = M.Vec([float(x) for x in p])
            self.polylines.append(plm)
            self.segs.append(RefSegments(pl["points"], pl["edges"]))
        self.surfaces, self.tris = [], []
        stale = bool(cfg.get("stale_attrs"))
        if stale:
            self.probes["measured_then_deformed"] += 1
        for sf in w["surfaces"]:
            data = RawMeshData()
            # history: with 'stale_attrs' the mesh is first built in another shape, measured (the library stores areas, normals and
            # lengths as persistent attributes), and only then deformed into the shape it has when it is sampled
            data.vertices += [[3.0 * p[0] + 0.5 * p[1], 0.25 * p[1], p[2] + p[0]] if stale else list(p) for p in sf["points"]]
            data.faces += [list(f) for f in sf["faces"]]
            m = M.mesh.SurfaceMesh(data)
            if stale:
                call(M.attributes.face_area, m)
                call(M.attributes.face_normals, m)
                call(sampling.sample_surface, m, 3)  # sampled in the first shape as well (never judged)
                for i, p in enumerate(sf["points"]):
                    m.vertices[i] = M.Vec([float(x) for x in p])
            self.surfaces.append(m)
            with np.errstate(all="ignore"):
                self.tris.append(RefTriangles(sf["points"], sf["faces"]))
        self.boxes = [M.geometry.AABB(list(b["mini"]), list(b["maxi"])) for b in w["boxes"]]
        self.box_now = [{"mini": list(b["mini"]), "maxi": list(b["maxi"])} for b in w["boxes"]]  # corners as they stand (a caller may move a box)
        if any(sf.get("degenerate") for sf in w["surfaces"]):
            self.probes["zero_area_face"] += 1
        if any(c.get("int") for c in w["curves"] + w["patches"]):
            self.probes["integer_control_net"] += 1
        # the control nets as they stand now (a client may replace control points between evaluations)
        self.P_curves = [[list(p) for p in c["P"]] for c in w["curves"]]
        self.P_patches = [[[list(p) for p in row] for row in c["P"]] for c in w["patches"]]
        self.curves = [M.splines.BezierCurve([list(p) for p in c["P"]]) for c in w["curves"]]
        self.patches = [M.splines.BezierPatch([[list(p) for p in row] for row in c["P"]]) for c in w["patches"]]
        self.shared = cfg["prng_mode"] == "shared_stream"
        if self.shared:
            self.probes["shared_stream_run"] += 1
        self.foreign = False  # a foreign client drew from the global PRNG since the last sampler call
        self.draws = 0
        self.judged = 0
        self.substantive = 0
        self.nprop = 0
        self.opkinds = set()
        self.share_counts = None  # observed samples per edge / face of the share-test world
        self.share_total = 0
        self.patch_conv = {}  # patch index -> True (u along rows) / False, once a call discriminated
        ch = cfg.get("chi2")
        if ch:
            ncell = len(w["polylines"][ch["w"]]["edges"]) if ch["kind"] == "polyline" else len(w["surfaces"][ch["w"]]["faces"])
            self.share_counts = np.zeros(ncell, dtype=np.int64)

    # ================================================================== proposing events
    def _count(self, r):
        left = MAX_DRAWS - self.draws
        cls = r.wchoice(["zero", "one", "tiny", "small", "medium", "large"], [0.4, 1, 2, 6, 3, 1 if not self.cfg["big_n"] else 4])
        n = {"zero": 0, "one": 1, "tiny": r.randint(2, 5), "small": r.randint(6, 60), "medium": r.randint(61, 400), "large": r.randint(401, 2000)}[cls]
        return max(0, min(n, left))

    def _centre(self, r):
        k = r.wchoice(["origin", "unit", "mid", "far"], [2, 3, 3, 2])
        m = {"origin": 0.0, "unit": 1.0, "mid": 100.0, "far": 1e4}[k]
        return [r.uniform(-m, m) for _ in range(3)]

    def _radius(self, r):
        k = r.wchoice(["one", "log", "small", "big"], [1, 5, 2, 2])
        if k == "one":
            return 1.0
        if k == "small":
            return r.choice([1e-3, 0.01, 0.1, 0.5, 0.999])
        if k == "big":
            return r.choice([1.001, 2.0, 10.0, 1e3])
        return 10.0 ** r.uniform(-3, 3)

    def _sampler_event(self, c, r):
        op = r.choice(self.cfg["ops"])
        n = self._count(r)
        if n <= 0:
            return None
        w = self.cfg["world"]
        if op in ("sphere", "ball"):
            return {"c": c, "op": op, "center": self._centre(r), "cform": r.choice(["vec", "nparr"]), "radius": self._radius(r),
                    "n": n, "pc": r.chance(0.25)}
        if op == "aabb" and r.chance(0.12):
            b = r.below(len(w["boxes"]))
            cur = self.box_now[b]
            sh = [round(r.uniform(-3, 3), 3) for _ in cur["mini"]]
            k_ = r.choice([0.5, 1.0, 2.0, 10.0])
            mn = [a + s_ for a, s_ in zip(cur["mini"], sh)]
            mx = [m_ + k_ * (c_ - a) for m_, a, c_ in zip(mn, cur["mini"], cur["maxi"])]
            return {"c": c, "op": "box_move", "box": b, "mini": mn, "maxi": mx}
        if op == "aabb":
            b = r.below(len(w["boxes"]))
            d = len(w["boxes"][b]["mini"])
            mode = r.choice(["uniform", "grid"])
            if mode == "grid" and r.chance(0.4):
                k = r.randint(1, max(1, int(round(2000 ** (1.0 / d)))))
                n = max(1, min(k ** d + r.choice([0, 0, 1, -1]), 2000, MAX_DRAWS - self.draws))
            lg = getattr(self, "_last_grid", None)
            if mode == "grid" and lg is not None and r.chance(0.4):
                # the same grid resolution again, on a box of the same dimension (another one when there is one)
                same = [i for i, bx in enumerate(w["boxes"]) if len(bx["mini"]) == lg[0]]
                others = [i for i in same if i != lg[2]] or same
                if others and lg[1] <= MAX_DRAWS - self.draws:
                    b, n = r.choice(others), lg[1]
                    d = lg[0]
            if mode == "grid":
                self._last_grid = (d, n, b)
            return {"c": c, "op": op, "box": b, "n": n, "mode": mode, "pc": d <= 3 and r.chance(0.25)}
        if op == "polyline":
            wi = r.below(len(w["polylines"]))
            ne = len(w["polylines"][wi]["edges"])
            if r.chance(0.3):
                n = max(1, min(ne * r.randint(1, 25), 2000, MAX_DRAWS - self.draws))  # a multiple of the number of edges
            return {"c": c, "op": op, "w": wi, "n": n, "pc": r.chance(0.25)}
        wi = r.below(len(w["surfaces"]))
        return {"c": c, "op": "surface", "w": wi, "n": n, "pc": r.chance(0.35), "normals": r.chance(0.5) and not w["surfaces"][wi].get("degenerate")}

    def _param(self, r):
        k = r.wchoice(["unif", "end", "near"], [6, 2, 2])
        if k == "unif":
            return r.random()
        if k == "end":
            return r.choice([0.0, 1.0, 0.5])
        return r.choice([1e-9, 1.0 - 1e-9, 5e-324, 1.0 - EPS / 2, 1e-300, 0.25, 0.75])

    def _bad_param(self, r):
        return r.choice([-1e-9, 1.0 + 1e-9, -1.0, 2.0, -0.5, 1.5, 1e300, -1e300, "inf", "-inf", 1.0 + 1e-6, -1e-6, 17.0, "nan"])

    def _bezier_event(self, c, r):
        ev = self._bezier_event_inner(c, r)
        if ev is not None and ev["op"] in BEZIER_OPS and r.chance(0.3):
            ev["scribble"] = True  # afterwards the caller changes the returned vector / exported vertices in place
        return ev

    def _bezier_event_inner(self, c, r):
        op = r.choice(self.cfg["bops"])
        w = self.cfg["world"]
        if self.cfg.get("ctrl_edits") and r.chance(0.2):
            # the caller edits the control polygon between evaluations: replaces one control point by a new vector
            if r.chance(0.6):
                k = r.below(len(w["curves"]))
                cv = w["curves"][k]
                new = [(float(r.randint(-6, 6)) if cv.get("int") or r.chance(0.3) else round(r.uniform(-4, 4), 3)) for _ in cv["P"][0]]
                return {"c": c, "op": "ctrl_replace", "what": "curve", "k": k, "i": r.below(len(cv["P"])), "p": new}
            k = r.below(len(w["patches"]))
            pt = w["patches"][k]
            new = [(float(r.randint(-6, 6)) if pt.get("int") or r.chance(0.3) else round(r.uniform(-4, 4), 3)) for _ in pt["P"][0][0]]
            return {"c": c, "op": "ctrl_replace", "what": "patch", "k": k, "i": r.below(len(pt["P"])), "j": r.below(len(pt["P"][0])), "p": new}
        if op in ("curve_eval", "curve_ends", "as_polyline"):
            k = r.below(len(w["curves"]))
            if op == "curve_eval":
                return {"c": c, "op": op, "k": k, "t": self._param(r), "tform": r.choice(["py", "np"])}
            if op == "curve_ends":
                return {"c": c, "op": op, "k": k}
            dims = [i for i, cv in enumerate(w["curves"]) if len(cv["P"][0]) in (2, 3)]
            if not dims:
                return {"c": c, "op": "curve_ends", "k": k}
            return {"c": c, "op": op, "k": r.choice(dims), "n": r.choice([1, 2, 2, 3, 5, r.randint(2, 40), r.randint(2, 120)])}
        k = r.below(len(w["patches"]))
        if op == "patch_eval":
            return {"c": c, "op": op, "k": k, "u": self._param(r), "v": self._param(r), "tform": r.choice(["py", "np"])}
        if op == "patch_corners":
            return {"c": c, "op": op, "k": k}
        dims = [i for i, pt in enumerate(w["patches"]) if len(pt["P"][0][0]) == 3]
        if not dims:
            return {"c": c, "op": "patch_corners", "k": k}
        n1 = r.choice([1, 2, 2, 3, 4, 5, r.randint(2, 14)])
        n2 = n1 if r.chance(0.35) else r.choice([1, 2, 3, 3, 4, 5, r.randint(2, 14)])
        return {"c": c, "op": op, "k": r.choice(dims), "n1": n1, "n2": n2}

    def propose(self, rng):
        cfg = self.cfg
        self.nprop += 1
        names = list(cfg["clients"])
        weights = [2.0 if n.startswith("sampler") else 1.5 for n in names]
        ch = cfg.get("chi2")
        need = 0
        if ch:
            need = max(0, -(-(ch["target"] - self.share_total) // (1200 if ch.get("style") != "small" else 250)))
            i = names.index("sharer")
            if need == 0:
                names.pop(i)
                weights.pop(i)
            else:
                weights[i] = 3.0
        if cfg["faults_on"]:
            names += ["noise", "rejector"]
            weights += [cfg["noise_rate"], cfg["reject_rate"]]
        left_steps = cfg["max_steps"] - self.nprop + 1
        if need and left_steps <= need:
            c = "sharer"  # the share test needs its draws before the run ends
            self._last_client = c
        else:
            c = self.pick_client(rng, names, weights, cfg["burst"])
        r = self.client_rng(c)
        if c == "sharer" and ch.get("style") == "small":
            n = r.choice([1, 1, 2, 3])
            rep = min(r.randint(250, 400), (MAX_DRAWS - self.draws) // n)
            if rep <= 0:
                return None
            if ch["kind"] == "polyline":
                return {"c": c, "op": "polyline", "w": ch["w"], "n": n, "pc": False, "repeat": rep}
            return {"c": c, "op": "surface", "w": ch["w"], "n": n, "pc": False, "normals": False, "repeat": rep}
        if c == "sharer":
            n = min(r.randint(1200, 2000), MAX_DRAWS - self.draws)
            if n <= 0:
                return None
            if ch["kind"] == "polyline":
                return {"c": c, "op": "polyline", "w": ch["w"], "n": n, "pc": r.chance(0.15)}
            return {"c": c, "op": "surface", "w": ch["w"], "n": n, "pc": r.chance(0.15),
                    "normals": r.chance(0.3) and not self.cfg["world"]["surfaces"][ch["w"]].get("degenerate")}
        if c.startswith("sampler"):
            return self._sampler_event(c, r)
        if c == "bezier":
            return self._bezier_event(c, r)
        if c == "noise":
            return {"c": c, "op": r.choice(NOISE_OPS), "k": r.choice([1, 1, 2, 3, 7, r.randint(1, 64), r.randint(1, 700)])}
        # rejector
        w = cfg["world"]
        if r.chance(0.5):
            return {"c": c, "op": "curve_reject", "k": r.below(len(w["curves"])), "t": self._bad_param(r), "tform": r.choice(["py", "np"])}
        which = r.choice(["u", "v", "uv"])
        u = self._bad_param(r) if "u" in which else self._param(r)
        v = self._bad_param(r) if "v" in which else self._param(r)
        return {"c": c, "op": "patch_reject", "k": r.below(len(w["patches"])), "u": u, "v": v, "tform": r.choice(["py", "np"])}

    # ================================================================== guards for replay / minimisation
    def applicable(self, ev):
        w = self.cfg["world"]
        op = ev["op"]
        if op == "aabb":
            return 0 <= ev["box"] < len(w["boxes"]) and not (ev["pc"] and len(w["boxes"][ev["box"]]["mini"]) > 3)
        if op == "polyline":
            return 0 <= ev["w"] < len(w["polylines"])
        if op == "surface":
            return 0 <= ev["w"] < len(w["surfaces"])
        if op == "ctrl_replace":
            if ev["what"] == "curve":
                return 0 <= ev["k"] < len(w["curves"]) and 0 <= ev["i"] < len(w["curves"][ev["k"]]["P"]) and len(ev["p"]) == len(w["curves"][ev["k"]]["P"][0])
            P = w["patches"][ev["k"]]["P"] if 0 <= ev["k"] < len(w["patches"]) else None
            return P is not None and 0 <= ev["i"] < len(P) and 0 <= ev["j"] < len(P[0]) and len(ev["p"]) == len(P[0][0])
        if op in ("curve_eval", "curve_ends", "curve_reject"):
            return 0 <= ev["k"] < len(w["curves"])
        if op == "as_polyline":
            return 0 <= ev["k"] < len(w["curves"]) and len(w["curves"][ev["k"]]["P"][0]) in (2, 3)
        if op in ("patch_eval", "patch_corners", "patch_reject"):
            return 0 <= ev["k"] < len(w["patches"])
        if op == "as_surface":
            return 0 <= ev["k"] < len(w["patches"]) and len(w["patches"][ev["k"]]["P"][0][0]) == 3
        if op == "box_move":
            return 0 <= ev["box"] < len(w["boxes"]) and len(ev["mini"]) == len(w["boxes"][ev["box"]]["mini"]) and all(a < b_ for a, b_ in zip(ev["mini"], ev["maxi"]))
        if op in ("sphere", "ball"):
            return self.draws + ev["n"] <= MAX_DRAWS
        return True

    # ================================================================== helpers for the sampler oracles
    def _before_sampler(self, ev):
        """fault accounting: prng_handover fired = a sampler call ran after a foreign draw in a shared_stream run"""
        if self.shared and self.foreign:
            self.faults["prng_handover"] += 1
        self.foreign = False
        self.draws += ev["n"]
        if ev.get("pc"):
            self.probes["point_cloud_return"] += 1

    def _as_points(self, value, pc, op, site, argclass, dim):
        """returned array / point cloud -> float array (count, dim).  A value that is no array / point cloud at all is
        reported against the count clause (there is no set of points to count)."""
        try:
            if pc:
                X = np.array([np.asarray(v, dtype=float) for v in value.vertices], dtype=float)
                if X.size == 0:
                    X = X.reshape(0, 3)
            else:
                X = np.asarray(value, dtype=float)
            if X.ndim != 2:
                raise ValueError("shape %r" % (X.shape,))
        except Exception as e:  # noqa: BLE001 - the library's return value is data, not our code
            self.violation("exact-count", op, "wrong_value", site, argclass,
                           "%s did not return %s: %r (%s)" % (site, "a point cloud" if pc else "an (n, %d) array" % dim, type(value).__name__, e))
        return X

    def _check_count(self, X, allowed, dim, op, site, argclass, what):
        if X.shape[0] not in allowed or X.shape[1] != dim:
            self.violation("exact-count", op, "wrong_value", site, argclass,
                           "%s returned shape %r; expected %s points of dimension %d" % (what, X.shape, sorted(allowed), dim))

    @staticmethod
    def _worst(bad, X, extra):
        i = int(np.argmax(bad))
        return "%d of %d points violate; e.g. point #%d = %r (%s)" % (int(bad.sum()), len(bad), i, canon(X[i]), extra(i))

    def _summary(self, X):
        return [int(X.shape[0]), canon(X[0]) if len(X) else None]

    # ------------------------------------------------------------------ sphere / ball
    def _do_ball_like(self, ev):
        op = ev["op"]
        c = np.array(ev["center"], dtype=float)
        center = self.M.Vec(ev["center"]) if ev["cform"] == "vec" else np.array(ev["center"], dtype=float)
        r, n, pc = ev["radius"], ev["n"], ev["pc"]
        ac = _radius_class(r)
        if ac != "radius==1":
            self.probes[ac] += 1
        if float(np.max(np.abs(c))) > 1000.0:
            self.probes["large_centre"] += 1
        self._before_sampler(ev)
        fn = self.S.sample_sphere if op == "sphere" else self.S.sample_ball
        site = fn.__name__
        out = call(fn, center, r, n, pc)
        what = "%s(%r, %r, %d, %r)" % (site, ev["center"], r, n, pc)
        if not out.ok:
            self.exc_violation("valid-parameters-accepted", op, out, ac, what + " raised")
        X = self._as_points(out.value, pc, op, site, ac, 3)
        self._check_count(X, {n}, 3, op, site, ac, what)
        with np.errstate(all="ignore"):
            dist = np.linalg.norm(X - c[None, :], axis=1)
            nc = float(np.linalg.norm(c))
            if op == "sphere":
                tol = 1e-9 * max(1.0, r, nc)
                bad = ~(np.abs(dist - r) <= tol)
                if bad.any():
                    self.violation("on-sphere", op, "wrong_value", site, ac,
                                   what + ": " + self._worst(bad, X, lambda i: "|p-c| = %r, radius %r, tolerance %.3g" % (float(dist[i]), r, tol)))
            else:
                lim = r * (1.0 + 1e-12) + 1e-12 * nc
                bad = ~(dist <= lim)
                if bad.any():
                    self.violation("inside-ball", op, "wrong_value", site, ac,
                                   what + ": " + self._worst(bad, X, lambda i: "|p-c| = %r > radius %r" % (float(dist[i]), r)))
        self.judged += 1
        self.substantive += 1
        return self._summary(X)

    _do_sphere = _do_ball = _do_ball_like

    # ------------------------------------------------------------------ box
    def _do_box_move(self, ev):
        """the caller moves / resizes a box it owns by writing into its corners (box.mini / box.maxi are the box's own arrays)"""
        k = ev["box"]
        bx = self.boxes[k]
        mn, mx = [float(x) for x in ev["mini"]], [float(x) for x in ev["maxi"]]
        o = call(lambda: (bx.mini.__setitem__(slice(None), mn), bx.maxi.__setitem__(slice(None), mx)))
        if not o.ok:
            return "not-writable:" + o.brief()  # (corners that cannot be written in place: nothing moved, nothing to judge)
        got = ([float(x) for x in bx.mini], [float(x) for x in bx.maxi])
        if got != (mn, mx):
            return "not-a-view"
        self.box_now[k] = {"mini": mn, "maxi": mx}
        self.probes["box_moved_by_caller"] += 1
        return "moved"

    def _do_aabb(self, ev):
        b = self.box_now[ev["box"]]
        mini, maxi = np.array(b["mini"], dtype=float), np.array(b["maxi"], dtype=float)
        d, n, mode, pc = len(mini), ev["n"], ev["mode"], ev["pc"]
        ac = mode
        if d >= 4:
            self.probes["box_dim>=4"] += 1
        if mode == "grid":
            allowed = nearest_perfect_powers(n, d)
            self.probes["grid_perfect_power" if allowed == {n} else "grid_nonperfect_power"] += 1
        else:
            allowed = {n}
        self._before_sampler(ev)
        out = call(self.S.sample_AABB, self.boxes[ev["box"]], n, mode, pc)
        what = "sample_AABB(AABB(%r, %r), %d, %r, %r)" % (b["mini"], b["maxi"], n, mode, pc)
        if not out.ok:
            self.exc_violation("valid-parameters-accepted", "aabb", out, ac, what + " raised")
        X = self._as_points(out.value, pc, "aabb", "sample_AABB", ac, d)
        if pc:  # a point cloud is 3-D: lower-dimensional samples are documented to be padded with zeros
            self._check_count(X, allowed, 3, "aabb", "sample_AABB", ac, what)
            pad = X[:, d:]
            if pad.size and not np.all(pad == 0.0):
                self.violation("within-box", "aabb", "wrong_value", "sample_AABB", ac, what + ": padding coordinates of the point cloud are not 0")
            X = X[:, :d]
        else:
            self._check_count(X, allowed, d, "aabb", "sample_AABB", ac, what)
        with np.errstate(all="ignore"):
            slack = 4.0 * EPS * np.maximum(np.abs(mini), np.abs(maxi))  # ulp-scale: mini + span*u rounds at most 1 ulp past maxi
            bad = ~np.all((X >= (mini - slack)[None, :]) & (X <= (maxi + slack)[None, :]), axis=1)
        if bad.any():
            self.violation("within-box", "aabb", "wrong_value", "sample_AABB", ac,
                           what + ": " + self._worst(bad, X, lambda i: "box is %r .. %r" % (b["mini"], b["maxi"])))
        self.judged += 1
        self.substantive += 1
        return self._summary(X)

    # ------------------------------------------------------------------ polyline
    def _do_polyline(self, ev):
        wi, n, pc = ev["w"], ev["n"], ev["pc"]
        pl = self.cfg["world"]["polylines"][wi]
        seg = self.segs[wi]
        ne = len(pl["edges"])
        ac = "1 edge" if ne == 1 else "edges>1"
        if ne == 1:
            self.probes["single_edge_polyline"] += 1
        if pl.get("kind") == "multi":
            self.probes["multi_component_polyline"] += 1
        self._before_sampler(ev)
        out = call(self.S.sample_polyline, self.polylines[wi], n, pc)
        what = "sample_polyline(polyline #%d [%d edges], %d, %r)" % (wi, ne, n, pc)
        if not out.ok:
            self.exc_violation("valid-parameters-accepted", "polyline", out, ac, what + " raised")
        X = self._as_points(out.value, pc, "polyline", "sample_polyline", ac, 3)
        self._check_count(X, {n}, 3, "polyline", "sample_polyline", ac, what)
        with np.errstate(all="ignore"):
            D = seg.distances(X)
            near = np.argmin(D, axis=1)
            dmin = D[np.arange(len(X)), near]
            tol = 1e-9 * seg.scale
            bad = ~(dmin <= tol)
        if bad.any():
            self.violation("on-polyline-edge", "polyline", "wrong_value", "sample_polyline", ac,
                           what + ": " + self._worst(bad, X, lambda i: "distance to the nearest edge = %.3g, tolerance %.3g" % (float(dmin[i]), tol)))
        ch = self.cfg.get("chi2")
        if ch and ch["kind"] == "polyline" and ch["w"] == wi:
            self.share_counts += np.bincount(near, minlength=ne)
            self.share_total += len(X)
        self.judged += 1
        self.substantive += 1
        return self._summary(X)

    # ------------------------------------------------------------------ surface
    def _do_surface(self, ev):
        wi, n, pc, wn = ev["w"], ev["n"], ev["pc"], ev["normals"]
        sf = self.cfg["world"]["surfaces"][wi]
        tri = self.tris[wi]
        nf = len(sf["faces"])
        ac = "1 face" if nf == 1 else "faces>1"  # argument class for count / membership / exceptions
        acn = "pc" if pc else "array"  # ... and for the normals clause: how the normals are handed back
        if wn:
            self.probes["normals_requested"] += 1
        if nf == 1:
            self.probes["single_face_surface"] += 1
        self._before_sampler(ev)
        out = call(self.S.sample_surface, self.surfaces[wi], n, pc, wn)
        what = "sample_surface(surface #%d [%d faces], %d, return_point_cloud=%r, return_normals=%r)" % (wi, nf, n, pc, wn)
        if not out.ok:
            self.exc_violation("valid-parameters-accepted", "surface", out, ac, what + " raised")
        val = out.value
        N = None
        if wn:
            # normals: second element of the returned pair, or the "normals" attribute of the returned point cloud
            try:
                if pc:
                    o2 = call(lambda: val.vertices.get_attribute("normals"))
                    if not o2.ok:
                        raise ValueError("point cloud has no readable 'normals' attribute: %r" % (o2.exc,))
                    attr = o2.value
                    N = np.array([np.asarray(attr[i], dtype=float) for i in range(len(val.vertices))], dtype=float).reshape(-1, 3)
                else:
                    val, N = val[0], np.asarray(val[1], dtype=float)
                    if N.ndim != 2 or N.shape[1] != 3:
                        raise ValueError("normals of shape %r" % (N.shape,))
            except Exception as e:  # noqa: BLE001 - shape of the library's return value
                self.violation("face-normal", "surface", "wrong_value", "sample_surface", acn, what + ": normals were requested but not returned (%s)" % (e,))
        X = self._as_points(val, pc, "surface", "sample_surface", ac, 3)
        self._check_count(X, {n}, 3, "surface", "sample_surface", ac, what)
        if N is not None and len(N) != len(X):
            self.violation("face-normal", "surface", "wrong_value", "sample_surface", acn, what + ": %d normals for %d points" % (len(N), len(X)))
        with np.errstate(all="ignore"):
            minb, off = tri.locate(X)
            tol = 1e-9 * tri.scale
            inside = (minb >= -1e-9) & (off <= tol)
            bad = ~inside.any(axis=1)
        if bad.any():
            def why(i):
                f = int(np.argmax(np.where(off[i] <= tol, minb[i], -np.inf)))
                return "best face %d: smallest barycentric coordinate %.3g, off-plane %.3g; smallest off-plane distance to any face %.3g" % (
                    f, float(minb[i, f]), float(off[i, f]), float(off[i].min()))
            self.violation("inside-surface-face", "surface", "wrong_value", "sample_surface", ac, what + ": " + self._worst(bad, X, why))
        if N is not None:
            with np.errstate(all="ignore"):
                err = np.max(np.abs(N[:, None, :] - tri.unit_normal[None, :, :]), axis=2)
                okn = (inside & (err <= 1e-9)).any(axis=1)
                badn = ~okn
            if badn.any():
                def whyn(i):
                    fs = [int(f) for f in np.nonzero(inside[i])[0]]
                    return "returned normal %r; containing face(s) %r with unit normal(s) %r" % (canon(N[i]), fs, canon(tri.unit_normal[fs]))
                self.violation("face-normal", "surface", "wrong_value", "sample_surface", acn, what + ": " + self._worst(badn, X, whyn))
        ch = self.cfg.get("chi2")
        if ch and ch["kind"] == "surface" and ch["w"] == wi:
            self.share_counts += np.bincount(np.argmax(inside, axis=1), minlength=nf)
            self.share_total += len(X)
        self.judged += 1
        self.substantive += 1
        return self._summary(X)

    # ------------------------------------------------------------------ noise client (fault: prng_handover)
    def _do_noise(self, ev):
        k, op = ev["k"], ev["op"]
        R = np.random  # the PROCESS-GLOBAL generator the library draws from (seeded by the engine); values are discarded
        if op == "np_random":
            R.random(k)
        elif op == "np_normal":
            R.normal(0.0, 1.0, size=k)
        elif op == "np_randint":
            R.randint(0, 1000, size=k)
        elif op == "np_choice":
            R.choice(5, size=k, p=[0.1, 0.2, 0.3, 0.15, 0.25])
        elif op == "np_uniform":
            R.uniform(-1.0, 1.0, k)
        elif op == "vec_random":
            o = call(self.M.Vec.random, k)
            if not o.ok:
                return o.brief()
        else:
            raise ValueError("unknown noise op %r" % (op,))
        self.foreign = True
        return "drew"

    # ================================================================== Bezier oracles
    @staticmethod
    def _tol(P):
        return 1e-12 * max_abs(P) + 1e-30

    @staticmethod
    def _t(x, form):
        x = float(_dec_param(x))
        return np.float64(x) if form == "np" else x

    def _vec(self, out, dim, clause, op, site, ac, what):
        """returned value -> list of floats of the control points' dimension"""
        try:
            v = np.asarray(out.value, dtype=float).reshape(-1)
            if v.shape[0] != dim:
                raise ValueError("dimension %d" % v.shape[0])
        except Exception as e:  # noqa: BLE001
            self.violation(clause, op, "wrong_value", site, ac, "%s returned %r (%s), expected a point of dimension %d" % (what, type(out.value).__name__, e, dim))
        return [float(x) for x in v]

    def _check_value(self, got, refs, P, op, site, ac, what, endpoint=None):
        """got == Bernstein form (any admissible reference in refs), inside the bounding box, == control point at ends"""
        tol = self._tol(P)
        errs = [max(abs(g - e) for g, e in zip(got, ref)) if all(math.isfinite(g) for g in got) else float("inf") for ref in refs]
        if endpoint is not None:
            e = max(abs(g - x) for g, x in zip(got, endpoint)) if all(math.isfinite(g) for g in got) else float("inf")
            if not e <= tol:
                self.violation("end-interpolation", op, "wrong_value", site, ac, "%s = %r but the end/corner control point is %r (error %.3g > %.3g)" % (what, got, endpoint, e, tol))
        if not min(errs) <= tol:
            self.violation("bernstein", op, "wrong_value", site, ac,
                           "%s = %r; Bernstein form %r (error %.3g > tolerance %.3g)" % (what, got, refs[int(np.argmin(errs))], min(errs), tol))
        pts = flat_points(P)
        for k, g in enumerate(got):
            lo, hi = min(p[k] for p in pts), max(p[k] for p in pts)
            if not (lo - tol <= g <= hi + tol):
                self.violation("convex-hull", op, "wrong_value", site, ac, "%s = %r: coordinate %d outside the control points' range [%r, %r]" % (what, got, k, lo, hi))
        return errs

    def _curve_ac(self, P):
        return "degree=%d" % (len(P) - 1) if len(P) - 1 <= 1 else "degree>=2"

    def _do_ctrl_replace(self, ev):
        M = self.M
        self.probes["ctrl_point_replaced"] += 1
        if ev["what"] == "curve":
            self.curves[ev["k"]].pts[ev["i"]] = M.Vec(*ev["p"])
            self.P_curves[ev["k"]][ev["i"]] = list(ev["p"])
        else:
            self.patches[ev["k"]].pts[ev["i"]][ev["j"]] = M.Vec(*ev["p"])
            self.P_patches[ev["k"]][ev["i"]][ev["j"]] = list(ev["p"])
        return 1

    def _do_curve_eval(self, ev):
        P = self.P_curves[ev["k"]]
        t = self._t(ev["t"], ev["tform"])
        ac = self._curve_ac(P)
        if len(P) == 1:
            self.probes["degree0"] += 1
        if float(t) in (0.0, 1.0):
            self.probes["t_endpoint"] += 1
        out = call(self.curves[ev["k"]].evaluate, t)
        self._returned.append(out)
        what = "BezierCurve(%r).evaluate(%r)" % (P, float(t))
        if not out.ok:
            self.exc_violation("bernstein", "curve_eval", out, ac, what + " raised for t in [0,1]")
        got = self._vec(out, len(P[0]), "bernstein", "curve_eval", "BezierCurve.evaluate", ac, what)
        endpoint = P[0] if float(t) == 0.0 else (P[-1] if float(t) == 1.0 else None)
        self._check_value(got, [bernstein_curve(P, float(t))], P, "curve_eval", "BezierCurve.evaluate", ac, what, endpoint)
        self.judged += 1
        self.substantive += 1
        return got

    def _do_curve_ends(self, ev):
        P = self.P_curves[ev["k"]]
        ac = self._curve_ac(P)
        res = []
        for t, cp in ((0.0, P[0]), (1.0, P[-1]), (np.float64(1.0), P[-1]), (0, P[0]), (1, P[-1])):
            self.probes["t_endpoint"] += 1
            out = call(self.curves[ev["k"]].evaluate, t)
            self._returned.append(out)
            what = "BezierCurve(%r).evaluate(%r)" % (P, t)
            if not out.ok:
                self.exc_violation("end-interpolation", "curve_ends", out, ac, what + " raised at an end parameter")
            got = self._vec(out, len(P[0]), "end-interpolation", "curve_ends", "BezierCurve.evaluate", ac, what)
            self._check_value(got, [bernstein_curve(P, float(t))], P, "curve_ends", "BezierCurve.evaluate", ac, what, cp)
            res.append(got)
        self.judged += 1
        self.substantive += 1
        return res[:2]

    def _patch_refs(self, k, P, u, v, op, site, ac, what, got, endpoint=None):
        """Bernstein check under the admissible parametrisation conventions; one run = one convention per patch"""
        convs = [self.patch_conv[k]] if k in self.patch_conv else [True, False]
        refs = [bernstein_patch(P, u, v, cv) for cv in convs]
        errs = self._check_value(got, refs, P, op, site, ac, what, endpoint)
        if len(convs) == 2:
            tol = self._tol(P)
            a, b = errs[0] <= tol, errs[1] <= tol
            if a != b:
                self.patch_conv[k] = bool(a)

    def _patch_ac(self, P):
        m, n = len(P) - 1, len(P[0]) - 1
        if m != n:
            self.probes["patch_nonsquare_net"] += 1
        return "net=square" if m == n else "net=rect"

    def _corner(self, P, u, v, conv):
        """control point interpolated at (u, v) in {0,1}^2 under a convention"""
        if conv:  # u along a row (inner index), v across rows
            return P[-1 if v == 1.0 else 0][-1 if u == 1.0 else 0]
        return P[-1 if u == 1.0 else 0][-1 if v == 1.0 else 0]

    def _do_patch_eval(self, ev):
        k = ev["k"]
        P = self.P_patches[k]
        u, v = self._t(ev["u"], ev["tform"]), self._t(ev["v"], ev["tform"])
        ac = self._patch_ac(P)
        out = call(self.patches[k].evaluate, u, v)
        self._returned.append(out)
        what = "BezierPatch(%r).evaluate(%r, %r)" % (P, float(u), float(v))
        if not out.ok:
            self.exc_violation("bernstein", "patch_eval", out, ac, what + " raised for (u,v) in [0,1]^2")
        got = self._vec(out, len(P[0][0]), "bernstein", "patch_eval", "BezierPatch.evaluate", ac, what)
        self._patch_refs(k, P, float(u), float(v), "patch_eval", "BezierPatch.evaluate", ac, what, got)
        self.judged += 1
        self.substantive += 1
        return got

    def _do_patch_corners(self, ev):
        k = ev["k"]
        P = self.P_patches[k]
        ac = self._patch_ac(P)
        res = []
        corners = [P[0][0], P[0][-1], P[-1][0], P[-1][-1]]
        for u in (0.0, 1.0):
            for v in (0.0, 1.0):
                self.probes["t_endpoint"] += 1
                out = call(self.patches[k].evaluate, u, v)
                self._returned.append(out)
                what = "BezierPatch(%r).evaluate(%r, %r)" % (P, u, v)
                if not out.ok:
                    self.exc_violation("end-interpolation", "patch_corners", out, ac, what + " raised at a corner parameter")
                got = self._vec(out, len(P[0][0]), "end-interpolation", "patch_corners", "BezierPatch.evaluate", ac, what)
                convs = [self.patch_conv[k]] if k in self.patch_conv else [True, False]
                tol = self._tol(P)
                cands = [self._corner(P, u, v, cv) for cv in convs]
                e = [max(abs(g - x) for g, x in zip(got, cp)) if all(math.isfinite(g) for g in got) else float("inf") for cp in cands]
                if not min(e) <= tol:
                    self.violation("end-interpolation", "patch_corners", "wrong_value", "BezierPatch.evaluate", ac,
                                   "%s = %r but the corner control point is %r (all corners: %r)" % (what, got, cands[0], corners))
                self._patch_refs(k, P, u, v, "patch_corners", "BezierPatch.evaluate", ac, what, got)
                res.append(got)
        self.judged += 1
        self.substantive += 1
        return res

    # ------------------------------------------------------------------ rejected parameters (fault: reject)
    def _expect_reject(self, out, op, site, ac, what):
        self.probes["t_out_of_range"] += 1
        if out.ok:
            self.violation("reject-out-of-range", op, "wrong_value", site, ac, "%s must be refused but returned %r" % (what, canon(out.value)))
        self.faults["reject"] += 1  # fired: the call actually raised
        return "rejected:" + type(out.exc).__name__

    def _do_curve_reject(self, ev):
        P = self.P_curves[ev["k"]]
        t = self._t(ev["t"], ev["tform"])
        out = call(self.curves[ev["k"]].evaluate, t)
        self._returned.append(out)
        self.judged += 1
        return self._expect_reject(out, "curve_reject", "BezierCurve.evaluate", "t<0" if t < 0 else ("t>1" if t > 1 else "t=nan"),
                                   "BezierCurve(<%d points>).evaluate(%r)" % (len(P), float(t)))

    def _do_patch_reject(self, ev):
        P = self.P_patches[ev["k"]]
        u, v = self._t(ev["u"], ev["tform"]), self._t(ev["v"], ev["tform"])
        bu, bv = not (0.0 <= u <= 1.0), not (0.0 <= v <= 1.0)
        out = call(self.patches[ev["k"]].evaluate, u, v)
        self._returned.append(out)
        self.judged += 1
        return self._expect_reject(out, "patch_reject", "BezierPatch.evaluate", ("u" if bu else "") + ("v" if bv else "") + " out of range",
                                   "BezierPatch(<%dx%d net>).evaluate(%r, %r)" % (len(P), len(P[0]), float(u), float(v)))

    # ------------------------------------------------------------------ exports
    def _mesh_vertices(self, mesh, clause, op, site, ac, what):
        try:
            return np.array([np.asarray(v, dtype=float) for v in mesh.vertices], dtype=float).reshape(-1, 3)
        except Exception as e:  # noqa: BLE001
            self.violation(clause, op, "wrong_value", site, ac, "%s: exported vertices are not 3-D points (%s)" % (what, e))

    def _grid_index(self, x, n):
        """index i with x == i/(n-1) (n == 1: x == 0) up to 1e-12, else None"""
        if n == 1:
            return 0 if abs(x) <= 1e-12 else None
        i = int(round(x * (n - 1)))
        return i if 0 <= i < n and abs(x - i / (n - 1)) <= 1e-12 else None

    def _do_as_polyline(self, ev):
        k, n = ev["k"], ev["n"]
        P = self.P_curves[k]
        dim = len(P[0])
        ac = "dim=%d" % dim
        site = "BezierCurve.as_polyline"
        out = call(self.curves[k].as_polyline, n)
        self._returned.append(out)
        what = "BezierCurve(%r).as_polyline(%d)" % (P, n)
        if not out.ok:
            self.exc_violation("export-count", "as_polyline", out, ac, what + " raised")
        pl = out.value
        V = self._mesh_vertices(pl, "export-count", "as_polyline", site, ac, what)
        if len(V) != n:
            self.violation("export-count", "as_polyline", "wrong_value", site, ac, "%s has %d vertices, expected %d" % (what, len(V), n))
        edges = [tuple(int(x) for x in e) for e in pl.edges]
        for e in edges:
            if len(e) != 2 or not all(0 <= x < n for x in e):
                self.violation("export-in-range", "as_polyline", "wrong_value", site, ac, "%s: edge %r with %d vertices" % (what, e, n))
        if sorted(tuple(sorted(e)) for e in edges) != [(i, i + 1) for i in range(n - 1)]:
            self.violation("export-grid-consistent", "as_polyline", "wrong_value", site, ac,
                           "%s: edges %r are not the chain (i, i+1), i < %d" % (what, edges[:12], n - 1))
        # vertex i = curve at its recorded parameter, which must be the regular grid i/(n-1)
        o2 = call(lambda: pl.vertices.get_attribute("t"))
        ts = None
        if o2.ok:
            try:
                ts = [float(o2.value[i]) for i in range(n)]
            except Exception:  # noqa: BLE001
                ts = None
        if ts is None:
            ts = [0.0] if n == 1 else [i / (n - 1) for i in range(n)]
        tol = self._tol(P)
        for i in range(n):
            if self._grid_index(ts[i], n) != i:
                self.violation("export-grid-consistent", "as_polyline", "wrong_value", site, ac,
                               "%s: vertex %d records parameter t=%r, expected %r" % (what, i, ts[i], 0.0 if n == 1 else i / (n - 1)))
            ref = bernstein_curve(P, min(max(ts[i], 0.0), 1.0)) + [0.0] * (3 - dim)
            err = float(np.max(np.abs(V[i] - np.array(ref))))
            if not err <= tol:
                self.violation("export-vertex-value", "as_polyline", "wrong_value", site, ac,
                               "%s: vertex %d = %r but the curve at t=%r is %r" % (what, i, canon(V[i]), ts[i], ref))
        self.judged += 1
        self.substantive += 1
        return [len(V), len(edges)]

    def _do_as_surface(self, ev):
        k, n1, n2 = ev["k"], ev["n1"], ev["n2"]
        P = self.P_patches[k]
        ac = "n1==n2" if n1 == n2 else ("n1>n2" if n1 > n2 else "n1<n2")
        self.probes["n1==n2" if n1 == n2 else "n1!=n2"] += 1
        site = "BezierPatch.as_surface"
        out = call(self.patches[k].as_surface, n1, n2)
        self._returned.append(out)
        what = "BezierPatch(<%dx%d net>).as_surface(%d, %d)" % (len(P), len(P[0]), n1, n2)
        if not out.ok:
            self.exc_violation("export-count", "as_surface", out, ac, what + " raised")
        mesh = out.value
        V = self._mesh_vertices(mesh, "export-count", "as_surface", site, ac, what)
        nv = n1 * n2
        if len(V) != nv:
            self.violation("export-count", "as_surface", "wrong_value", site, ac, "%s has %d vertices, expected n1*n2 = %d" % (what, len(V), nv))
        faces = [tuple(int(x) for x in f) for f in mesh.faces]
        for f in faces:
            if not all(0 <= x < nv for x in f):
                self.violation("export-in-range", "as_surface", "wrong_value", site, ac,
                               "%s: face %r refers to a vertex index >= %d (= number of vertices)" % (what, f, nv))
        # grid position of every vertex: from the parameters the export records, which must be the full regular grid
        o2 = call(lambda: mesh.vertices.get_attribute("uv_coords"))
        uv = None
        if o2.ok:
            try:
                uv = [[float(x) for x in np.asarray(o2.value[i], dtype=float).reshape(-1)] for i in range(nv)]
                if any(len(x) != 2 for x in uv):
                    uv = None
            except Exception:  # noqa: BLE001
                uv = None
        if uv is None:  # no recorded parameters: row-major layout k = i*n2 + j
            lin = lambda i, n: 0.0 if n == 1 else i / (n - 1)
            uv = [[lin(q // n2, n1), lin(q % n2, n2)] for q in range(nv)]
        pos = {}
        cell_of = []
        for q in range(nv):
            i, j = self._grid_index(uv[q][0], n1), self._grid_index(uv[q][1], n2)
            if i is None or j is None or (i, j) in pos:
                self.violation("export-grid-consistent", "as_surface", "wrong_value", site, ac,
                               "%s: vertex %d records parameters %r, which is not a new node of the %dx%d grid" % (what, q, uv[q], n1, n2))
            pos[(i, j)] = q
            cell_of.append((i, j))
        tol = self._tol(P)
        convs = [self.patch_conv[k]] if k in self.patch_conv else [True, False]
        refs = {cv: np.array([bernstein_patch(P, uv[q][0], uv[q][1], cv) for q in range(nv)]) for cv in convs}
        errs = {cv: (float(np.max(np.abs(V - refs[cv]))) if nv else 0.0) for cv in convs}
        best = min(convs, key=lambda cv: errs[cv])
        if not errs[best] <= tol:
            q = int(np.argmax(np.max(np.abs(V - refs[best]), axis=1)))
            self.violation("export-vertex-value", "as_surface", "wrong_value", site, ac,
                           "%s: vertex %d = %r but the patch at (u,v)=%r is %r" % (what, q, canon(V[q]), uv[q], canon(refs[best][q])))
        if len(convs) == 2 and (errs[True] <= tol) != (errs[False] <= tol):
            self.patch_conv[k] = bool(errs[True] <= tol)
        # faces: every grid cell covered exactly once (one quad, or two triangles sharing a diagonal)
        cover = {}
        for f in faces:
            g = [cell_of[x] for x in f]
            i0, j0 = min(a for a, _ in g), min(b for _, b in g)
            loc = [(a - i0, b - j0) for a, b in g]
            ok = len(set(f)) == len(f) and all(a in (0, 1) and b in (0, 1) for a, b in loc) and i0 < n1 - 1 and j0 < n2 - 1
            if ok and len(f) == 4:
                ring = [(0, 0), (1, 0), (1, 1), (0, 1)]
                s = ring.index(loc[0])
                ok = loc in ([ring[(s + d) % 4] for d in range(4)], [ring[(s - d) % 4] for d in range(4)])
            elif ok and len(f) == 3:
                ok = len(set(loc)) == 3
            else:
                ok = False
            if not ok:
                self.violation("export-grid-consistent", "as_surface", "wrong_value", site, ac,
                               "%s: face %r joins grid nodes %r, which are not the corners of one grid cell (vertex (i,j) has index %s)" % (
                                   what, f, g, "i*n2+j" if all(pos.get((a, b)) == a * n2 + b for a in range(n1) for b in range(n2)) else "per uv_coords"))
            cover.setdefault((i0, j0), []).append(loc)
        for i in range(n1 - 1):
            for j in range(n2 - 1):
                locs = cover.get((i, j), [])
                good = (len(locs) == 1 and len(locs[0]) == 4) or \
                       (len(locs) == 2 and all(len(x) == 3 for x in locs) and len(set(locs[0]) | set(locs[1])) == 4 and
                        sorted(set(locs[0]) & set(locs[1])) in ([(0, 0), (1, 1)], [(0, 1), (1, 0)]))
                if not good:
                    self.violation("export-grid-consistent", "as_surface", "wrong_value", site, ac,
                                   "%s: grid cell (%d,%d) is covered by %d faces (%r); expected one quad or two triangles" % (what, i, j, len(locs), locs))
        if len(cover) != (max(n1 - 1, 0) * max(n2 - 1, 0)):
            self.violation("export-grid-consistent", "as_surface", "wrong_value", site, ac, "%s: %d cells covered, grid has %d" % (what, len(cover), (n1 - 1) * (n2 - 1)))
        self.judged += 1
        self.substantive += 1
        return [len(V), len(faces)]

    # ================================================================== step / finish
    def step(self, ev):
        self.calls += 1
        op = ev["op"]
        self.opkinds.add(op)
        if ev["c"] == "noise":
            return self._do_noise(ev)
        self._returned = []
        if ev.get("repeat"):
            # the same small request, many times in a row (one event: one PRNG stream in per_call mode, so the calls are independent draws)
            self.probes["many_small_draws"] += 1
            one = {k_: v_ for k_, v_ in ev.items() if k_ != "repeat"}
            for _ in range(int(ev["repeat"]) - 1):
                getattr(self, "_do_" + op)(one)
        res = getattr(self, "_do_" + op)(ev)
        if ev.get("scribble") and self._returned:
            self._scribble()
        return res

    def _scribble(self):
        """the caller changes, in place, what an evaluation / export handed back (its own data now): the curves and patches must not follow"""
        done = False
        for out in self._returned:
            if not out.ok:
                continue
            v = out.value
            try:
                if isinstance(v, np.ndarray):
                    v += 3.25
                    done = True
                elif hasattr(v, "vertices"):
                    for i in range(len(v.vertices)):
                        q = v.vertices[i]
                        if isinstance(q, np.ndarray):
                            q += 3.25
                            done = True
            except (TypeError, ValueError):  # (integer-typed vectors refuse the in-place float addition)
                pass
        if done:
            self.probes["caller_edits_returned_value"] += 1

    def finish(self):
        """history oracle: 'over many draws the share of samples per edge/face follows length/area' - at most one
        chi-square test per run, over all draws made on the designated non-degenerate world"""
        ch = self.cfg.get("chi2")
        if not ch or self.share_total < (CHI2_MIN_DRAWS if ch.get("style") != "small" else 1200):
            return
        if ch["kind"] == "polyline":
            weights = [float(x) for x in self.segs[ch["w"]].length]
            clause, op, site = "share-follows-length", "polyline", "sample_polyline"
        else:
            weights = [float(x) for x in self.tris[ch["w"]].area]
            clause, op, site = "share-follows-area", "surface", "sample_surface"
        stat, dof, cells = chi2_pooled([int(x) for x in self.share_counts], weights)
        if dof < 1:
            return
        self.probes["chi2_test_run"] += 1
        self.probes["chi2_" + ch["kind"]] += 1
        thr = float(_chi2.isf(CHI2_P, dof))
        if not stat <= thr:
            tot = math.fsum(weights)
            exp = [self.share_total * x / tot for x in weights]
            self.violation(clause, op, "wrong_value", site, "chi2",
                           "chi-square = %.1f with %d degrees of freedom over %d draws (threshold %.1f at p = %g); observed per cell %r, expected %r" % (
                               stat, dof, self.share_total, thr, CHI2_P, [int(x) for x in self.share_counts], [round(x, 1) for x in exp]))

    def nontrivial(self):
        return self.judged >= 2 and self.substantive >= 1

    def class_key(self):
        cfg = self.cfg
        dims = sorted({len(b["mini"]) for b in cfg["world"]["boxes"]})
        ch = cfg.get("chi2")
        return "%s|f%d|%s|chi:%s|d%s" % (cfg["prng_mode"], int(bool(cfg["faults_on"])), ",".join(sorted(self.opkinds)),
                                         ch["kind"] if ch else "-", "".join(map(str, dims)))


SIM = C19
