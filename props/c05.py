"""C05 - attributes are total maps with defaults; sparse and dense storage agree.

World: 1-3 containers (DataContainer / CornerDataContainer).  Every attribute is created as a
TWIN PAIR (<name>_s sparse, <name>_d dense) with identical parameters and driven in lock-step.
Clients sharing the containers: grower, writer, reader, admin, and - in faulted runs - a
rejector issuing operations the API must refuse.  Oracle: RefAttr (dict + default) per twin pair
plus the twins against each other."""
import numpy as np

from sim.engine import Sim, call, canon

TYPES = ["bool", "int", "float", "complex", "str"]
PYT = {"bool": bool, "int": int, "float": float, "complex": complex, "str": str}
CASTS = {("bool", "int"), ("bool", "float"), ("int", "float")}
TYPE_DEFAULT = {"bool": False, "int": 0, "float": 0.0, "complex": 0j, "str": ""}
WRAPS = {"bool": ["py", "np.bool_"], "int": ["py", "np.int32", "np.int64", "np.uint8"],
         "float": ["py", "np.float32", "np.float64"], "complex": ["py"], "str": ["py"]}


def can_cast(tv, ta):
    return tv == ta or (tv, ta) in CASTS


def enc_scalar(t, v):
    if t == "complex":
        return [v.real, v.imag]
    return v


def dec_scalar(t, w, v):
    if t == "complex":
        return complex(v[0], v[1])
    if t == "none":
        return None
    if w == "py":
        return PYT[t](v) if t != "str" else v
    return getattr(np, w.split(".")[1])(v)


def dec_value(d):
    """{'t','w','v'[, 'seq']} -> python value to hand to the library"""
    t = d["t"]
    if "seq" not in d:
        return dec_scalar(t, d["w"], d["v"])
    items = [dec_scalar(t, d["w"], x) for x in d["v"]]
    seq = d["seq"]
    if seq == "list":
        return items
    if seq == "tuple":
        return tuple(items)
    if seq == "nparr":
        return np.array([dec_scalar(t, "py", x) for x in d["v"]], dtype={"bool": bool, "int": np.int64, "float": np.float64, "complex": complex, "str": "<U32"}[t])
    if seq == "vec":
        from mouette import Vec
        return Vec([dec_scalar(t, "py", x) for x in d["v"]])
    raise ValueError(seq)


def model_value(d):
    """the plain python value the model stores for an accepted write"""
    t = d["t"]
    if "seq" not in d:
        return dec_scalar(t, "py", d["v"])
    return [dec_scalar(t, "py", x) for x in d["v"]]


def val_eq(read, expected, arity):
    """value equality between what the library answers and the model (scalar default of a vector
    attribute is compared component-wise: the statement fixes values, not array shapes)"""
    try:
        if arity == 1:
            r = read
            if isinstance(r, np.ndarray):
                if r.size != 1:
                    return False
                r = r.reshape(-1)[0]
            return bool(r == expected)
        r = np.asarray(read)
        e = np.asarray(expected)
        if r.ndim == 0:
            return bool(np.all(e == r))
        if e.ndim == 0:
            return r.shape == (arity,) and bool(np.all(r == e))
        return r.shape == e.shape and bool(np.all(r == e))
    except Exception:
        return False


class RefAttr:
    def __init__(self, t, arity, default):
        self.t, self.arity, self.default = t, arity, default
        self.data = {}

    def get(self, i):
        if i in self.data:
            return self.data[i]
        if self.default is not None:
            return self.default  # scalar custom default (component-wise for vectors)
        return TYPE_DEFAULT[self.t] if self.arity == 1 else [TYPE_DEFAULT[self.t]] * self.arity


class RefContainer:
    def __init__(self, corner):
        self.corner = corner
        self.items = []
        self.attrs = {}  # base name -> RefAttr


class C05(Sim):
    PROP = "C05"
    RULE = ("one run = 1-3 containers carrying twin sparse/dense attributes, driven by grower/writer/reader/admin"
            "[/rejector] clients under a seeded scheduler; distinct = distinct ((type,arity,default-kind) set, op-kind set, "
            "interleaving hash); non-trivial = at least one accepted write and one container growth with an attribute alive")
    FAULT_KINDS = ["reject"]
    PROBES = ["index==size", "mutate_default", "extend_by_container", "rejected_write", "read_default", "grow_with_dense",
              "attr_clear", "container_clear", "widening_write", "vector_attr", "custom_default", "corner_container", "copy_entry", "big_int", "first_use_is_mutation", "extend_empty_by_container", "attribute_created_again", "clear_after_inplace_change"]
    QUICK_RUNS = 8000
    THOROUGH_RUNS = 1500000
    BLOCK = 100
    ASSUMPTIONS = ["strings are at most 32 characters (documented storage limit of dense string attributes)",
                   "numeric values (and the results of the in-place increments applied to them) are exactly representable in every "
                   "supported numpy width (uint8/int32/float32...), so arithmetic done by numpy on values read back is exact",
                   "vector values are homogeneous sequences (list/tuple/ndarray/Vec) of one scalar type",
                   "out-of-container indices are only exercised on the dense twin (the statement is silent for sparse)",
                   "attribute names are not re-used while alive (duplicate creation is outside the statement)"]
    COMPONENTS = {"real": ["mouette.mesh.data_container", "mouette.mesh.mesh_attributes", "mouette.geometry.vector.Vec", "numpy"],
                  "stub": ["none"]}

    # ------------------------------------------------------------------ config
    def gen_config(self, rng, tier):
        ncont = rng.wchoice([1, 2, 3], [5, 3, 1])
        conts = []
        for _ in range(ncont):
            conts.append({"corner": rng.chance(0.25), "n0": rng.choice([0, 0, 1, 2, 3, 5, 8])})
        clients = ["grower", "writer", "reader", "admin"]
        if rng.chance(0.5):
            clients.append("writer")
        if rng.chance(0.3):
            clients.append("reader")
        return {"conts": conts, "clients": clients, "max_steps": rng.randint(6, 40), "burst": rng.choice([0.2, 0.5, 0.8]),
                "inv_every": rng.choice([1, 2, 4]), "types": rng.subset(TYPES, 0.6, at_least=1),
                "max_arity": rng.choice([1, 2, 3, 4]), "reject_w": rng.choice([0.5, 1.0, 2.0]),
                # 'lazy': no read right after a creation, so that the FIRST use of a fresh attribute can be any operation (e.g. reading an unset
                # entry and changing the value obtained)
                "lazy": rng.chance(0.4)}

    def shrink_cfgs(self, cfg):
        if len(cfg["conts"]) > 1:
            for k in range(len(cfg["conts"]) - 1, 0, -1):
                c = dict(cfg)
                c["conts"] = cfg["conts"][:k]
                yield c
        for k, ct in enumerate(cfg["conts"]):
            if ct["n0"] > 0:
                c = dict(cfg)
                c["conts"] = [dict(x) for x in cfg["conts"]]
                c["conts"][k]["n0"] = ct["n0"] - 1 if ct["n0"] <= 2 else ct["n0"] // 2
                yield c

    def start(self, cfg):
        from mouette.mesh.data_container import DataContainer, CornerDataContainer
        self.DC, self.CDC = DataContainer, CornerDataContainer
        self.conts, self.refs = [], []
        for k, ct in enumerate(cfg["conts"]):
            ref = RefContainer(ct["corner"])
            if ct["corner"]:
                c = CornerDataContainer(id="cc%d" % k)
                for i in range(ct["n0"]):
                    c.append(i, i // 3)
                    ref.items.append((i, i // 3))
                self.probes["corner_container"] += 1
            else:
                c = DataContainer(id="dc%d" % k)
                for i in range(ct["n0"]):
                    c.append((i, i + 1))
                    ref.items.append((i, i + 1))
            self.conts.append(c)
            self.refs.append(ref)
        self.handles = {}  # (k, name) -> (sparse attr, dense attr)
        self.nname = 0
        self.accepted = 0
        self.grown = 0
        self.opkinds = set()
        self.attrkinds = set()
        self._fresh_attr = None
        self.donors = []

    # ------------------------------------------------------------------ value generation
    def _gen_scalar(self, r, t):
        if t == "bool":
            return r.choice([True, False])
        if t == "int":
            return r.choice([0, 1, 2, 3, 5, 7, 42])
        if t == "float":
            return r.choice([0.0, 0.5, -1.25, 2.0, 3.75, 1024.0, -0.125])
        if t == "complex":
            return complex(r.choice([0.0, 1.0, -2.5]), r.choice([0.0, 0.5, 3.0]))
        return r.choice(["", "a", "bonjour", "x y", "z" * 20])

    def _gen_value(self, r, t, arity):
        """a well-formed value description of scalar type t and the given arity"""
        w = r.choice(WRAPS[t])
        if t == "int" and r.chance(0.08):
            # integers beyond 32 bits (Python ints / int64 only): an int attribute holds them in either storage
            big = r.choice([2 ** 31 + 5, -2 ** 40 + 1, 2 ** 52 + 1, -2 ** 31 - 7])
            w = r.choice(["py", "np.int64"])
            self.probes["big_int"] += 1
            if arity == 1:
                return {"t": t, "w": w, "v": big}
            return {"t": t, "w": w if w == "py" else "py", "seq": r.choice(["list", "tuple", "nparr"]), "v": [big] + [self._gen_scalar(r, t) for _ in range(arity - 1)]}
        if arity == 1:
            return {"t": t, "w": w, "v": enc_scalar(t, self._gen_scalar(r, t))}
        seq = r.choice(["list", "tuple", "nparr", "vec", "list"])
        if seq in ("nparr", "vec"):
            w = "py"
        return {"t": t, "w": w, "seq": seq, "v": [enc_scalar(t, self._gen_scalar(r, t)) for _ in range(arity)]}

    def _pick_attr(self, r):
        keys = [(k, n) for k in range(len(self.refs)) for n in self.refs[k].attrs]
        return r.choice(keys) if keys else None

    def _idx(self, r, n):
        if n == 0:
            return None
        return r.choice([0, n - 1, r.below(n), r.below(n)])

    # ------------------------------------------------------------------ proposing
    def propose(self, rng):
        cfg = self.cfg
        names = list(dict.fromkeys(cfg["clients"] + (["rejector"] if cfg["faults_on"] else [])))
        weights = [cfg["clients"].count(n) or cfg["reject_w"] for n in names]
        c = self.pick_client(rng, names, weights, cfg["burst"])
        r = self.client_rng(c)
        nattr = sum(len(x.attrs) for x in self.refs)
        if nattr == 0 or (c == "admin" and r.chance(0.5) and nattr < 6):
            return self._prop_create(r, c)
        ka = self._pick_attr(r)
        fresh = getattr(self, "_fresh_attr", None)
        if fresh is not None and fresh[1] in self.refs[fresh[0]].attrs and r.chance(0.7):
            ka = fresh
            if c in ("reader", "admin") and r.chance(0.7):
                c = "writer"
        k, name = ka
        ref = self.refs[k]
        a = ref.attrs[name]
        n = len(ref.items)
        if c == "grower":
            kk = r.below(len(self.refs))
            op = r.wchoice(["append", "extend", "extendc"], [4, 3, 3])
            if op == "append":
                return {"c": c, "op": "append", "k": kk}
            if op == "extend":
                return {"c": c, "op": "extend", "k": kk, "how": r.choice(["list", "tuple", "set", "list"]), "n": r.choice([0, 1, 2, 3, 5])}
            return {"c": c, "op": "extendc", "k": kk, "n": r.choice([0, 1, 2, 4]), "with_attr": r.chance(0.4)}
        if c == "writer":
            i = self._idx(r, n)
            if i is None:
                return {"c": c, "op": "append", "k": k}
            op = r.wchoice(["set", "set_widen", "iupd", "mutread", "copy_entry"], [6, 2, 2, 3, 2])
            if op == "copy_entry":
                # a value obtained by READING one entry is written to another entry (a[j] = a[i])
                return {"c": c, "op": "copy_entry", "k": k, "name": name, "i": i, "j": self._idx(r, n)}
            if op == "set_widen":
                srcs = [tv for tv in TYPES if (tv, a.t) in CASTS]
                if srcs:
                    return {"c": c, "op": "set", "k": k, "name": name, "i": i, "val": self._gen_value(r, r.choice(srcs), a.arity)}
                op = "set"
            if op == "iupd" and a.t in ("int", "float", "complex", "str") and not (a.t == "str" and a.arity > 1) and \
                    not (a.t == "str" and len(a.get(i)) >= 30):
                inc = {"int": 3, "float": 0.25, "complex": [1.0, 1.0], "str": "q"}[a.t]
                return {"c": c, "op": "iupd", "k": k, "name": name, "i": i, "inc": inc}
            if op == "mutread" and a.arity > 1 and a.t in ("int", "float", "complex", "bool"):
                return {"c": c, "op": "mutread", "k": k, "name": name, "i": i, "twin": r.choice(["s", "d"]),
                        "how": r.choice(["iadd", "setitem"]), "resync": self._gen_value(r, a.t, a.arity), "then": r.choice(["resync", "resync", "clear"])}
            return {"c": c, "op": "set", "k": k, "name": name, "i": i, "val": self._gen_value(r, a.t, a.arity)}
        if c == "reader":
            op = r.wchoice(["get", "asarray", "has", "len", "scan"], [6, 3, 1, 1, 2])
            i = self._idx(r, n)
            if op == "get" and i is not None:
                return {"c": c, "op": "get", "k": k, "name": name, "i": i}
            if op == "asarray":
                return {"c": c, "op": "asarray", "k": k, "name": name}
            if op == "has":
                return {"c": c, "op": "has", "k": k, "name": r.choice([name, "nope"])}
            if op == "len":
                return {"c": c, "op": "len", "k": k}
            return {"c": c, "op": "scan"}
        if c == "admin":
            op = r.wchoice(["aclear", "delete", "cclear", "getattr"], [4, 2, 1, 2])
            if op == "aclear":
                return {"c": c, "op": "aclear", "k": k, "name": name}
            if op == "delete":
                return {"c": c, "op": "delete", "k": k, "name": name}
            if op == "cclear":
                return {"c": c, "op": "cclear", "k": k}
            return {"c": c, "op": "getattr", "k": k, "name": name}
        # ---- rejector: operations the API must refuse --------------------------------
        op = r.wchoice(["bad_type", "bad_arity", "oob_get", "oob_set", "bad_default", "missing_attr", "bad_extend"], [4, 3, 4, 4, 1, 1, 2])
        if op == "bad_type":
            srcs = [tv for tv in TYPES if not can_cast(tv, a.t)]
            i = self._idx(r, n)
            if i is not None and srcs:
                tv = r.choice(srcs + ["none"])
                if tv == "none":
                    val = {"t": "none", "w": "py", "v": None}
                    if a.arity > 1:
                        val = {"t": "none", "w": "py", "seq": "list", "v": [None] * a.arity}
                else:
                    val = self._gen_value(r, tv, a.arity)
                return {"c": c, "op": "set_bad", "k": k, "name": name, "i": i, "val": val, "why": "type"}
        if op == "bad_arity":
            i = self._idx(r, n)
            if i is not None and a.t != "str":
                if a.arity == 1:
                    ar = r.choice([2, 3, 1])  # (1: a one-element SEQUENCE handed to a scalar attribute - not a scalar)
                else:
                    ar = r.choice([x for x in (1, 2, 3, 4, 5) if x != a.arity])
                val = self._gen_value(r, a.t, ar)
                if ar == 1:
                    val = {"t": a.t, "w": "py", "seq": "list", "v": [enc_scalar(a.t, self._gen_scalar(r, a.t))]} if (r.chance(0.5) or a.arity == 1) else val
                return {"c": c, "op": "set_bad", "k": k, "name": name, "i": i, "val": val, "why": "arity"}
        if op in ("oob_get", "oob_set"):
            i = r.choice([-1, n, n, n + 1, -2, n + 7])
            ev = {"c": c, "op": op, "k": k, "name": name, "i": i, "off": i - n if i >= 0 else i}
            if op == "oob_set":
                ev["val"] = self._gen_value(r, a.t, a.arity)
            return ev
        if op == "bad_default":
            t = r.choice(TYPES)
            others = [x for x in TYPES if x != t]
            td = r.choice(others)
            self.nname += 1
            return {"c": c, "op": "create_bad", "k": r.below(len(self.refs)), "name": "b%d" % self.nname, "t": t, "arity": r.choice([1, 2]),
                    "default": {"t": td, "w": "py", "v": enc_scalar(td, self._gen_scalar(r, td))}}
        if op == "missing_attr":
            return {"c": c, "op": "getattr_missing", "k": k, "name": "missing"}
        return {"c": c, "op": "extend_bad", "k": k, "what": r.choice(["int", "str", "dict", "none"])}

    def _prop_create(self, r, c):
        cfg = self.cfg
        t = r.choice(cfg["types"])
        arity = r.randint(1, cfg["max_arity"])
        default = None
        if r.chance(0.35):
            v = self._gen_scalar(r, t)
            default = {"t": t, "w": "py", "v": enc_scalar(t, v)}
        k_ = r.below(len(self.refs))
        if self.refs[k_].attrs and r.chance(0.15):
            # the same NAME is created again on that container (the container replaces the attribute), same type and arity, another default:
            # the new attribute starts empty, with the new default
            nm = r.choice(sorted(self.refs[k_].attrs))
            old_ = self.refs[k_].attrs[nm]
            t, arity = old_.t, old_.arity
            v = self._gen_scalar(r, t)
            default = None if (old_.default is not None and r.chance(0.5)) else {"t": t, "w": "py", "v": enc_scalar(t, v)}
            return {"c": c, "op": "create", "k": k_, "name": nm, "t": t, "arity": arity, "default": default, "again": True}
        self.nname += 1
        return {"c": c, "op": "create", "k": k_, "name": "a%d" % self.nname, "t": t, "arity": arity, "default": default}

    # ------------------------------------------------------------------ replay guards
    def applicable(self, ev):
        op = ev["op"]
        k = ev.get("k")
        if k is not None and k >= len(self.refs):
            return False
        if op == "create" and ev.get("again"):
            a0 = self.refs[k].attrs.get(ev["name"])
            return a0 is not None and a0.t == ev["t"] and a0.arity == ev["arity"]
        if op in ("create", "create_bad"):
            return ev["name"] not in self.refs[k].attrs
        if "name" in ev and op not in ("has", "getattr_missing"):
            if ev["name"] not in self.refs[k].attrs:
                return False
            a = self.refs[k].attrs[ev["name"]]
            if "val" in ev and op in ("set", "oob_set"):
                v = ev["val"]
                if not can_cast(v["t"], a.t) or (len(v["v"]) if "seq" in v else 1) != a.arity:
                    return False
            if op == "mutread" and (a.arity < 2 or len(ev["resync"]["v"]) != a.arity or ev["resync"]["t"] != a.t):
                return False
        n = len(self.refs[k].items) if k is not None else 0
        if op in ("set", "get", "iupd", "mutread", "set_bad"):
            return 0 <= ev["i"] < n
        if op == "copy_entry":
            return 0 <= ev["i"] < n and 0 <= ev["j"] < n
        if op in ("oob_get", "oob_set"):
            # keep the index out of bounds relative to the *current* size
            return True
        return True

    # ------------------------------------------------------------------ oracle helpers
    def _oob_index(self, ev, n):
        off = ev["off"]
        return off if off < 0 else n + off

    def _check_state(self, after, rejected=False):
        """every attribute, every index: sparse == dense == model; dense length == container length."""
        clause = "rejected-op-leaves-state" if rejected else "total-map"
        for k, (c, ref) in enumerate(zip(self.conts, self.refs)):
            n = len(ref.items)
            if len(c) != n:
                self.violation("container-size", after, "state_corrupted" if rejected else "wrong_value", "len", "", "len(container)=%d model=%d" % (len(c), n))
            if set(c.attributes) != {nm + s for nm in ref.attrs for s in ("_s", "_d")}:
                self.violation("attribute-set", after, "state_corrupted" if rejected else "wrong_value", "attributes", "",
                               "attributes=%r model=%r" % (sorted(c.attributes), sorted(ref.attrs)))
            for name, a in ref.attrs.items():
                s, d = self.handles[(k, name)]
                if len(d) != n:
                    self.violation("aligned-after-growth", after, "state_corrupted", "dense-length", "",
                                   "dense attribute '%s' has length %d, container has %d elements" % (name, len(d), n))
                for i in range(n):
                    exp = a.get(i)
                    os_, od = call(s.__getitem__, i), call(d.__getitem__, i)
                    if not os_.ok:
                        self.exc_violation(clause, "get", os_, "sparse", "after %s: %s_s[%d]" % (after, name, i))
                    if not od.ok:
                        self.exc_violation(clause, "get", od, "dense", "after %s: %s_d[%d]" % (after, name, i))
                    if not val_eq(os_.value, exp, a.arity):
                        self.violation(clause, after, "wrong_value", "sparse-read", "%s/%d" % (a.t, a.arity),
                                       "%s_s[%d] reads %r, model %r" % (name, i, os_.value, exp))
                    if not val_eq(od.value, exp, a.arity):
                        self.violation(clause, after, "wrong_value", "dense-read", "%s/%d" % (a.t, a.arity),
                                       "%s_d[%d] reads %r, model %r" % (name, i, od.value, exp))

    def _expect_reject(self, out, op, what, exc_type=None):
        self.faults["reject"] += 1
        if out.ok:
            self.violation("reject", op, "wrong_value", what, "", "operation that must be refused was accepted (returned %r)" % (out.value,))
        if exc_type is not None and not isinstance(out.exc, exc_type):
            self.exc_violation("reject", op, out, what, "expected %s" % exc_type.__name__)

    # ------------------------------------------------------------------ step
    def step(self, ev):
        from mouette.mesh.mesh_attributes import Attribute
        self.calls += 1
        op = ev["op"]
        self.opkinds.add(op)
        k = ev.get("k")
        c = self.conts[k] if k is not None else None
        ref = self.refs[k] if k is not None else None
        check = False
        rejected = False
        res = None
        if op == "create":
            t, arity = ev["t"], ev["arity"]
            dflt = None if ev["default"] is None else dec_value(ev["default"])
            outs = [call(c.create_attribute, ev["name"] + sfx, PYT[t], arity, dense=dn, default_value=dflt)
                    for sfx, dn in (("_s", False), ("_d", True))]
            for o, w in zip(outs, ("sparse", "dense")):
                if not o.ok:
                    self.exc_violation("create", op, o, "%s/%s/%d/%s" % (w, t, arity, "custom" if dflt is not None else "implicit"))
            if ev["name"] in ref.attrs:
                self.probes["attribute_created_again"] += 1
            ref.attrs[ev["name"]] = RefAttr(t, arity, None if dflt is None else model_value(ev["default"]))
            self.handles[(k, ev["name"])] = (outs[0].value, outs[1].value)
            self.attrkinds.add("%s/%d/%s" % (t, arity, "c" if dflt is not None else "i"))
            if arity > 1:
                self.probes["vector_attr"] += 1
            if dflt is not None:
                self.probes["custom_default"] += 1
            check = True
        elif op == "create_bad":
            dflt = dec_value(ev["default"])
            for sfx, dn in (("_s", False), ("_d", True)):
                o = call(c.create_attribute, ev["name"] + sfx, PYT[ev["t"]], ev["arity"], dense=dn, default_value=dflt)
                self._expect_reject(o, op, "default-type")
            check = rejected = True
        elif op in ("set", "set_bad", "oob_set"):
            a = ref.attrs[ev["name"]]
            s, d = self.handles[(k, ev["name"])]
            n = len(ref.items)
            val = ev["val"]
            if op == "oob_set":
                i = self._oob_index(ev, n)
                if i == n:
                    self.probes["index==size"] += 1
                o = call(d.__setitem__, i, dec_value(val))
                self.faults["reject"] += 1
                if o.ok or not isinstance(o.exc, Attribute.OutOfBoundsError):
                    if o.ok:
                        self.violation("dense-out-of-bounds", op, "wrong_value", "dense-set", "index==size" if i == n else "index=%+d" % ev["off"],
                                       "dense write at index %d of a container of size %d was accepted" % (i, n))
                    self.exc_violation("dense-out-of-bounds", op, o, "index==size" if i == n else "index=%+d" % ev["off"],
                                       "dense write at index %d, container size %d: expected OutOfBoundsError" % (i, n))
                check = rejected = True
            else:
                i = ev["i"]
                ok_model = can_cast(val["t"], a.t) and (len(val["v"]) if "seq" in val else 1) == a.arity and \
                    (("seq" in val) == (a.arity > 1))
                if op == "set" and not ok_model:
                    raise ValueError("generator produced an invalid 'set': %r" % (ev,))
                outs = [call(s.__setitem__, i, dec_value(val)), call(d.__setitem__, i, dec_value(val))]
                if ok_model:
                    for o, w in zip(outs, ("sparse", "dense")):
                        if not o.ok:
                            self.exc_violation("accept-widening", op, o, "%s:%s->%s/%d" % (w, val["t"] + ":" + val["w"], a.t, a.arity),
                                               "valid write rejected: %r" % (val,))
                    a.data[i] = model_value(val)
                    self.accepted += 1
                    if val["t"] != a.t:
                        self.probes["widening_write"] += 1
                else:
                    self.probes["rejected_write"] += 1
                    self.faults["reject"] += 1
                    acc = [o.ok for o in outs]
                    if acc[0] != acc[1]:
                        self.violation("accept-reject-same", op, "wrong_value", "twins-disagree", "%s->%s/%d:%s" % (val["t"], a.t, a.arity, ev.get("why")),
                                       "value %r: sparse %s, dense %s" % (val, "accepted" if acc[0] else "rejected", "accepted" if acc[1] else "rejected"))
                    if acc[0]:
                        self.violation("accept-reject-same", op, "wrong_value", "invalid-accepted", "%s->%s/%d:%s" % (val["t"], a.t, a.arity, ev.get("why")),
                                       "invalid value %r accepted by both storages of a %s attribute of arity %d" % (val, a.t, a.arity))
                    rejected = True
                check = True
        elif op in ("get", "oob_get"):
            a = ref.attrs[ev["name"]]
            s, d = self.handles[(k, ev["name"])]
            n = len(ref.items)
            if op == "oob_get":
                i = self._oob_index(ev, n)
                if i == n:
                    self.probes["index==size"] += 1
                o = call(d.__getitem__, i)
                self.faults["reject"] += 1
                ac = "index==size" if i == n else "index=%+d" % ev["off"]
                if o.ok:
                    self.violation("dense-out-of-bounds", op, "wrong_value", "dense-get", ac, "dense read at index %d of a container of size %d returned %r" % (i, n, o.value))
                if not isinstance(o.exc, Attribute.OutOfBoundsError):
                    self.exc_violation("dense-out-of-bounds", op, o, ac, "dense read at index %d, container size %d: expected OutOfBoundsError" % (i, n))
                check = rejected = True
            else:
                i = ev["i"]
                exp = a.get(i)
                if i not in a.data:
                    self.probes["read_default"] += 1
                for o, w in ((call(s.__getitem__, i), "sparse"), (call(d.__getitem__, i), "dense")):
                    if not o.ok:
                        self.exc_violation("total-map", op, o, w)
                    if not val_eq(o.value, exp, a.arity):
                        self.violation("total-map", op, "wrong_value", w + "-read", "%s/%d" % (a.t, a.arity), "%s[%d] reads %r, model %r" % (ev["name"], i, o.value, exp))
                res = canon(exp)
        elif op == "iupd":
            a = ref.attrs[ev["name"]]
            s, d = self.handles[(k, ev["name"])]
            i = ev["i"]
            inc = complex(*ev["inc"]) if a.t == "complex" else ev["inc"]

            def upd(attr):
                attr[i] += inc
            for o, w in ((call(upd, s), "sparse"), (call(upd, d), "dense")):
                if not o.ok:
                    self.exc_violation("in-place-update", op, o, "%s:%s/%d" % (w, a.t, a.arity))
            old = a.get(i)
            a.data[i] = (old + inc) if a.arity == 1 else [x + inc for x in (old if isinstance(old, list) else [old] * a.arity)]
            self.accepted += 1
            check = True
        elif op == "copy_entry":
            a = ref.attrs[ev["name"]]
            s, d = self.handles[(k, ev["name"])]
            i, j = ev["i"], ev["j"]
            self.probes["copy_entry"] += 1

            def cp(attr):
                attr[j] = attr[i]
            for o, w in ((call(cp, s), "sparse"), (call(cp, d), "dense")):
                if not o.ok:
                    self.exc_violation("accept-widening", op, o, "%s:%s/%d" % (w, a.t, a.arity), "a[j] = a[i] rejected the attribute's own value")
            v = a.get(i)
            a.data[j] = list(v) if isinstance(v, list) else ([v] * a.arity if a.arity > 1 else v)
            self.accepted += 1
            check = True
        elif op == "mutread":
            a = ref.attrs[ev["name"]]
            s, d = self.handles[(k, ev["name"])]
            i = ev["i"]
            tw = s if ev["twin"] == "s" else d
            if i not in a.data:
                self.probes["mutate_default"] += 1
            if getattr(self, "_fresh_attr", None) == (k, ev["name"]):
                self.probes["first_use_is_mutation"] += 1
                self._fresh_attr = None
            o = call(tw.__getitem__, i)
            if not o.ok:
                self.exc_violation("total-map", op, o, ev["twin"])
            v = o.value
            if isinstance(v, np.ndarray) and v.ndim == 1:
                one = {"int": 1, "float": 1.0, "complex": 1 + 0j, "bool": True}[a.t]
                if ev["how"] == "iadd":
                    m = call(v.__iadd__, one)
                else:
                    m = call(v.__setitem__, 0, one if a.t != "bool" else (not bool(v[0])))
                # "Changing a value obtained by reading one entry never changes what any OTHER entry reads":
                # entry i itself is allowed to change, so it is put back in lock-step by a fresh write first.
            if ev.get("then") == "clear":
                # ... or the attribute is cleared right after the in-place change (no assignment in between): everything reads the default again
                self.probes["clear_after_inplace_change"] += 1
                for o2, w in ((call(s.clear), "sparse"), (call(d.clear), "dense")):
                    if not o2.ok:
                        self.exc_violation("clear", op, o2, w)
                a.data = {}
                self._check_state(op + ":" + ev["twin"] + "/then-clear")
                return "cleared"
            rs = ev["resync"]
            for o2, w in ((call(s.__setitem__, i, dec_value(rs)), "sparse"), (call(d.__setitem__, i, dec_value(rs)), "dense")):
                if not o2.ok:
                    self.exc_violation("accept-widening", op, o2, w, "valid write rejected: %r" % (rs,))
            a.data[i] = model_value(rs)
            self._check_state(op + ":" + ev["twin"] + ("/default" if i not in a.data else ""))
        elif op == "append":
            n = len(ref.items)
            if ref.corner:
                o = call(c.append, 100 + n, n // 3)
                item = (100 + n, n // 3)
            else:
                o = call(c.append, (100 + n, 101 + n))
                item = (100 + n, 101 + n)
            if not o.ok:
                self.exc_violation("aligned-after-growth", op, o, "corner" if ref.corner else "data")
            ref.items.append(item)
            self._grew(ref)
            check = True
        elif op == "extend":
            n = len(ref.items)
            if ref.corner:
                items = [(200 + n + j, j) for j in range(ev["n"])]
            else:
                items = [(200 + n + j, 201 + n + j) for j in range(ev["n"])]
            how = ev["how"]
            arg = items if how == "list" else tuple(items) if how == "tuple" else set(items)
            o = call(c.__iadd__, arg)
            if not o.ok:
                self.exc_violation("aligned-after-growth", op, o, how + ("/corner" if ref.corner else ""))
            ref.items.extend(items)  # order irrelevant to this property (set case): only counts are compared
            if ev["n"]:
                self._grew(ref)
            check = True
        elif op == "extendc":
            self.probes["extend_by_container"] += 1
            n = len(ref.items)
            if ref.corner:
                other = self.CDC(id="other")
                items = [(300 + n + j, j) for j in range(ev["n"])]
                for e, a_ in items:
                    other.append(e, a_)
            else:
                other = self.DC(id="other")
                items = [(300 + n + j, 301 + n + j) for j in range(ev["n"])]
                for it in items:
                    other.append(it)
            if ev.get("with_attr"):
                other.create_attribute("foreign", float, 1, dense=True)
            if n == 0:
                self.probes["extend_empty_by_container"] += 1
            o = call(c.__iadd__, other)
            # the caller keeps the container it appended: it must stay what it was, whatever happens to the target afterwards
            self.donors.append((other, list(items), bool(ev.get("with_attr"))))
            ac = ("corner" if ref.corner else "data") + ("/dense-alive" if ref.attrs else "")
            if not o.ok:
                # a failed growth must not leave container and attributes misaligned: judged by the state check,
                # and the failure itself is a violation ("appending ... another container keeps every attribute aligned")
                self.exc_violation("aligned-after-growth", op, o, ac, "c += other_container raised")
            ref.items.extend(items)
            if ev["n"]:
                self._grew(ref)
            check = True
        elif op == "extend_bad":
            what = {"int": 5, "str": "ab", "dict": {1: 2}, "none": None}[ev["what"]]
            o = call(c.__iadd__, what)
            self._expect_reject(o, op, "extend-" + ev["what"])
            check = rejected = True
        elif op == "aclear":
            self.probes["attr_clear"] += 1
            s, d = self.handles[(k, ev["name"])]
            for o, w in ((call(s.clear), "sparse"), (call(d.clear), "dense")):
                if not o.ok:
                    self.exc_violation("clear", op, o, w)
            ref.attrs[ev["name"]].data = {}
            check = True
        elif op == "cclear":
            self.probes["container_clear"] += 1
            o = call(c.clear)
            if not o.ok:
                self.exc_violation("clear", op, o)
            ref.items = []
            for name in list(ref.attrs):
                self.handles.pop((k, name), None)
            ref.attrs = {}
            check = True
        elif op == "delete":
            for sfx in ("_s", "_d"):
                o = call(c.delete_attribute, ev["name"] + sfx)
                if not o.ok:
                    self.exc_violation("delete", op, o)
            del ref.attrs[ev["name"]]
            self.handles.pop((k, ev["name"]), None)
            check = True
        elif op == "has":
            for sfx in ("_s", "_d"):
                o = call(c.has_attribute, ev["name"] + sfx)
                if not o.ok or bool(o.value) != (ev["name"] in ref.attrs):
                    self.violation("attribute-set", op, "wrong_value", "has_attribute", "", "has_attribute(%r)=%r" % (ev["name"] + sfx, o.value if o.ok else o.exc))
        elif op == "getattr":
            s, d = self.handles[(k, ev["name"])]
            for sfx, h in (("_s", s), ("_d", d)):
                o = call(c.get_attribute, ev["name"] + sfx)
                if not o.ok or o.value is not h:
                    self.violation("attribute-set", op, "wrong_value", "get_attribute", "", "get_attribute(%r) is not the attribute created under that name" % (ev["name"] + sfx,))
        elif op == "getattr_missing":
            o = call(c.get_attribute, ev["name"])
            self._expect_reject(o, op, "get_attribute")
            check = rejected = True
        elif op == "asarray":
            a = ref.attrs[ev["name"]]
            s, d = self.handles[(k, ev["name"])]
            n = len(ref.items)
            os_, od = call(s.as_array, n), call(d.as_array)
            for o, w in ((os_, "sparse"), (od, "dense")):
                if not o.ok:
                    self.exc_violation("array-export", op, o, "%s:%s/%d" % (w, a.t, a.arity))
            exp = [a.get(i) for i in range(n)]
            exp = [e if (a.arity == 1 or isinstance(e, list)) else [e] * a.arity for e in exp]
            e_arr = np.array(exp, dtype=object).reshape(-1) if n else np.array([], dtype=object)
            for o, w in ((os_, "sparse"), (od, "dense")):
                arr = np.asarray(o.value)
                if arr.size != n * a.arity or not all(bool(x == y) for x, y in zip(arr.reshape(-1).tolist(), e_arr.tolist())):
                    self.violation("array-export", op, "wrong_value", w + "-as_array", "%s/%d" % (a.t, a.arity),
                                   "%s as_array=%r model=%r" % (w, o.value, exp))
            if np.asarray(os_.value).shape != np.asarray(od.value).shape:
                self.violation("array-export", op, "wrong_value", "twins-disagree", "%s/%d" % (a.t, a.arity),
                               "as_array shapes differ: sparse %r dense %r" % (np.asarray(os_.value).shape, np.asarray(od.value).shape))
        elif op == "len":
            o1, o2 = call(len, c), call(c.empty)
            if not o1.ok or o1.value != len(ref.items) or not o2.ok or bool(o2.value) != (len(ref.items) == 0):
                self.violation("container-size", op, "wrong_value", "len", "", "len=%r empty=%r model=%d" % (o1.value, o2.value, len(ref.items)))
            res = len(ref.items)
        elif op == "scan":
            check = True
        else:
            raise ValueError("unknown op %r" % (op,))
        if op == "create" and self.cfg.get("lazy"):
            self._fresh_attr = (k, ev["name"])
            return res
        if check and self.cfg.get("lazy") and getattr(self, "_fresh_attr", None) is not None and op in ("append", "extend", "extendc"):
            return res  # (growth before the first use of the fresh attribute: still no read)
        if check and (rejected or op in ("append", "extend", "extendc", "scan", "cclear", "aclear", "create") or
                      self._step_no % self.cfg["inv_every"] == 0):
            self._fresh_attr = None
            self._check_state(op, rejected)
            if self.donors:
                self._check_donors(op)
        return res

    def _check_donors(self, op):
        """containers that were appended to another one are unchanged: same elements, their own attribute aligned with them"""
        for other, items, with_attr in self.donors[-6:]:
            o = call(lambda: (len(other), [other[i] for i in range(len(other))]))
            if not o.ok:
                self.exc_violation("aligned-after-growth", op, o, "appended-container", "reading a container that had been appended to another one raised")
            n, got = o.value
            want = [a for a, _ in items] if type(other).__name__ == "CornerDataContainer" else [tuple(x) for x in items]
            if n != len(items) or [tuple(x) if isinstance(x, (tuple, list)) else x for x in got] != want:
                self.violation("aligned-after-growth", op, "state_corrupted", "appended-container", "",
                               "a container with %d elements was appended to another one; after %s it holds %d elements: %r" % (len(items), op, n, got[:8]))
            if with_attr:
                a = other.get_attribute("foreign")
                o2 = call(lambda: a.as_array(len(items)) if len(items) else None)
                if not o2.ok or (len(items) and np.asarray(o2.value).size != len(items)):
                    self.violation("aligned-after-growth", op, "state_corrupted", "appended-container", "attribute",
                                   "the dense attribute of an appended container is no longer aligned with it (%d elements): %s" % (len(items), o2.brief()))

    def _grew(self, ref):
        if ref.attrs:
            self.probes["grow_with_dense"] += 1
            self.grown += 1

    def finish(self):
        self._check_state("end")

    def nontrivial(self):
        return self.accepted > 0 and self.grown > 0

    def class_key(self):
        return "%s|%s" % (",".join(sorted(self.attrkinds)), ",".join(sorted(self.opkinds)))


SIM = C05
