"""C06 - meshes have value semantics: copy, merge and transforms never alias.

World: a POOL of meshes produced by every producer in the library (raw build, from_arrays, load from SimFS,
procedural generators, merge, copy, subdivision results, boundary extraction).  2-3 clients each own some of the
meshes and issue copy / merge / transform / plain-edit calls; a seeded scheduler interleaves them.  After EVERY call
EVERY mesh of the pool is compared with the model (RefMesh: each mesh is its own float64 array): the target moved by
exactly the requested map, once per vertex; every other mesh bitwise unchanged.  The fault model is aliasing; the
schedule (who edits what after which producer call) is what exposes it."""
import math

import numpy as np

from sim.engine import Sim, call, canon
from sim.simfs import SimFS
from models import surfgen, volgen

TOL = 1e-11


def coords(mesh):
    return [[float(x) for x in v] for v in mesh.vertices]


def attr_vals(mesh):
    """values of the vertex attribute 'wa' (None when the mesh does not carry it)"""
    if not mesh.vertices.has_attribute("wa"):
        return None
    a = mesh.vertices.get_attribute("wa")
    return [[float(x) for x in np.atleast_1d(a[i])] for i in range(len(mesh.vertices))]


def elems(mesh):
    out = {}
    for k in ("edges", "faces", "cells"):
        if hasattr(mesh, k):
            out[k] = [tuple(int(x) for x in e) for e in getattr(mesh, k)]
    return out


class Ref:
    """model of one pooled mesh: its own coordinates (value semantics) and provenance"""

    def __init__(self, name, mesh, producer, clean, family):
        self.name, self.producer = name, producer
        self.P = coords(mesh)
        self.E = elems(mesh)
        self.A = attr_vals(mesh)
        self.clean = clean      # produced without any documented-or-not sharing with another pooled mesh
        self.family = family    # copy/merge family (in-place edits are judged inside families only)
        self.owner = None


def close(a, b, scale):
    return all(abs(x - y) <= TOL * scale for p, q in zip(a, b) for x, y in zip(p, q)) and len(a) == len(b)


def scale_of(P):
    return max([1.0] + [abs(x) for p in P for x in p])


def rot_matrix(kind, args):
    from scipy.spatial.transform import Rotation
    if kind == "euler":
        return Rotation.from_euler("xyz", args).as_matrix()
    if kind == "rotvec":
        return Rotation.from_rotvec(args).as_matrix()
    raise ValueError(kind)


class C06(Sim):
    PROP = "C06"
    RULE = ("one run = a pool of 2-8 meshes from seeded producers, 2-3 clients issuing copy/merge/transform/edit calls on the meshes they own; "
            "after every call every mesh is compared with its independent float64 model; distinct = distinct (producer multiset, call-kind sequence); "
            "non-trivial = >= 2 meshes alive and >= 2 transform/edit calls")
    FAULT_KINDS = ["aliasing_schedule", "reject"]
    PROBES = ["merge_same_twice", "merge_result_edited", "copy_edited", "source_edited_after_copy", "open_ring", "boundary_producer",
              "subdivision_producer", "int_coordinates", "inverse_pair", "flatten", "normalize", "load_producer", "inplace_edit", "copy_connectivity", "elem_edit", "cloud_in_merge", "copy_of_warm_source", "attribute_attached", "attr_edit", "class_wider_than_content", "orig_is_a_vertex", "hex_cells", "vector_attribute_edit", "corner_attribute_copied", "rotation_arg_reused"]
    QUICK_RUNS = 3000
    THOROUGH_RUNS = 300000
    BLOCK = 25
    ASSUMPTIONS = ["transform parameters are finite and moderate (|t| <= 100, 0.05 <= |s| <= 20), meshes have a non-zero extent when normalised",
                   "rotate / scale / normalise are judged to 1e-11 relative to the coordinate scale; translate, flatten and plain edits bit-exactly (the model performs the same float operations)",
                   "in-place edits of single coordinates (m.vertices[i][k] = x) are issued only on copy / merge results and on their inputs when those were produced without sharing "
                   "(the statement promises non-aliasing under edits for copy and merge only)",
                   "a mesh handed to an editing block and the block's result are one alias group (the block is documented to work in place): a transform of one "
                   "may move the other; each is still required to move exactly once",
                   "producers that raise are logged and skipped (their correctness belongs to C13/C14/C04)"]
    COMPONENTS = {"real": ["mouette.mesh.mesh (copy, merge, from_arrays, load)", "mouette.geometry.transform", "mouette.procedural.*", "mouette.mesh.subdivision",
                           "mouette.processing.border", "scipy Rotation"],
                  "stub": ["file system: SimFS (load producer)"]}

    # ------------------------------------------------------------------ config
    def gen_config(self, rng, tier):
        return {"n_init": rng.randint(1, 4), "max_steps": rng.randint(6, 30), "burst": rng.choice([0.2, 0.5, 0.8]),
                "clients": ["c0", "c1"] + (["c2"] if rng.chance(0.4) else []),
                "producers_off": rng.subset(["procedural", "boundary", "subdivision", "load", "from_arrays"], 0.2),
                "wseed": rng.below(1 << 30)}

    def start(self, cfg):
        import mouette as M
        self.M = M
        self.fs = SimFS().install()
        self.pool = {}   # name -> mesh
        self.ref = {}    # name -> Ref
        self.nmesh = 0
        self.kinds = []
        self.producers = []
        self.ntrans = 0
        self.rot_objs = {}  # (client, form) -> the client's own mutable rotation argument, overwritten in place before each use

    def close(self):
        self.fs.uninstall()

    # ------------------------------------------------------------------ producers
    def _new_name(self):
        return "m%d" % self.nmesh

    def _gen_produce(self, r, owner):
        off = self.cfg["producers_off"]
        kinds = ["raw_surface", "raw_tets", "raw_hexes", "raw_polyline", "raw_int", "raw_cloud", "cloud_from_arrays"]
        if "procedural" not in off:
            kinds += ["ring", "ring", "flat_ring", "triangle", "quad", "unit_grid", "unit_triangle", "tetrahedron", "cube", "octahedron",
                      "icosahedron", "cylinder", "torus", "sphere_uv", "icosphere", "chain", "vector_field"]
        if "from_arrays" not in off:
            kinds += ["from_arrays"]
        if "load" not in off:
            kinds += ["load_obj", "load_wider"]
        names = sorted(self.pool)
        if names:
            kinds += ["copy", "copy", "merge", "merge", "merge"]
            if "boundary" not in off:
                kinds += ["boundary"]
            if "subdivision" not in off:
                kinds += ["subdivide"]
        k = r.choice(kinds)
        ev = {"c": owner, "op": "produce", "kind": k, "name": self._new_name(), "attr": r.choice([None, None, "dense", "sparse"]), "attr_k": r.choice([1, 3])}
        if k in ("raw_surface", "from_arrays", "load_obj", "raw_int"):
            p, f = surfgen.gen_surface(r.fork(("w", self.nmesh)), r.choice([2, 5, 10]), tri_only=(k == "from_arrays"), allow_union=False)
            if k == "raw_int":
                p = [[int(round(3 * x)) for x in q] for q in p]
            ev["points"], ev["faces"] = [[round(x, 4) for x in q] for q in p] if k != "raw_int" else p, f
        elif k == "raw_tets":
            p, c, _ = volgen.gen_tets(r.fork(("w", self.nmesh)), r.choice([1, 4, 8]))
            ev["points"], ev["cells"] = p, c
        elif k == "raw_hexes":
            # a row of hexahedra (6 faces and 8 corners per cell: the corner tables of a cell differ in length)
            n = r.randint(1, 3)
            jit = lambda: round(r.uniform(-0.1, 0.1), 3)
            ev["points"] = [[float(i) + jit(), y + jit(), z + jit()] for i in range(n + 1) for (y, z) in ((0.0, 0.0), (1.0, 0.0), (1.0, 1.0), (0.0, 1.0))]
            ev["cells"] = [[4 * i, 4 * i + 1, 4 * i + 2, 4 * i + 3, 4 * i + 4, 4 * i + 5, 4 * i + 6, 4 * i + 7] for i in range(n)]
            if r.chance(0.4):
                ev["cells"].append([0, 1, 2, 5])  # ... next to a tetrahedron
        elif k in ("raw_cloud", "cloud_from_arrays"):
            ev["points"] = [[round(r.uniform(-3, 3), 3) for _ in range(3)] for _ in range(r.randint(1, 6))]
        elif k == "load_wider":
            # a file loaded with a forced dimension: the class is 'wider' than the content (a SurfaceMesh holding only edges, a PolyLine of points)
            n = r.randint(2, 6)
            ev["points"] = [[float(i), round(r.uniform(-1, 1), 3), round(r.uniform(-1, 1), 3)] for i in range(n)]
            ev["edges"] = [[i, i + 1] for i in range(n - 1)] if r.chance(0.6) else []
            ev["dim"] = 2 if ev["edges"] else r.choice([1, 2])
        elif k == "raw_polyline":
            n = r.randint(2, 7)
            ev["points"] = [[float(i), round(r.uniform(-1, 1), 3), round(r.uniform(-1, 1), 3)] for i in range(n)]
            ev["edges"] = [[i, i + 1] for i in range(n - 1)]
        elif k == "ring":
            ev["args"] = [r.randint(3, 8), r.choice([0.0, 0.5, 1.0, 2.0]), r.chance(0.5)]
        elif k == "flat_ring":
            ev["args"] = [r.randint(3, 8), r.choice([0.0, 0.5, 1.0])]
        elif k in ("triangle", "quad", "tetrahedron"):
            npt = {"triangle": 3, "quad": 3, "tetrahedron": 4}[k]
            ev["args"] = [[round(r.uniform(-2, 2), 3) for _ in range(3)] for _ in range(npt)]
            ev["flag"] = r.chance(0.5)
        elif k in ("unit_grid", "unit_triangle"):
            ev["args"] = [r.randint(2, 4), r.randint(2, 4)]
            ev["flag"] = r.chance(0.5)
        elif k == "cube":
            ev["flag"] = r.chance(0.5)
        elif k == "cylinder":
            ev["args"] = [[0.0, 0.0, 0.0], [round(r.uniform(-1, 1), 2), round(r.uniform(-1, 1), 2), 2.0], r.choice([0.5, 1.0]), r.randint(3, 6), r.chance(0.5)]
        elif k == "torus":
            ev["args"] = [r.randint(3, 5), r.randint(3, 5)]
            ev["flag"] = r.chance(0.5)
        elif k == "sphere_uv":
            ev["args"] = [r.randint(3, 5), r.randint(3, 5)]
        elif k == "icosphere":
            ev["args"] = [r.randint(0, 1)]
        elif k in ("chain", "vector_field"):
            n = r.randint(2, 6)
            ev["args"] = [[round(r.uniform(-2, 2), 3) for _ in range(3)] for _ in range(n)]
            ev["flag"] = r.chance(0.5)
        elif k == "copy":
            ev["src"] = r.choice(names)
            ev["flags"] = [r.chance(0.5), r.chance(0.3)]
            ev["warm"] = r.chance(0.5)  # the source's lazy connectivity has been queried before the copy is taken
        elif k == "merge":
            n = r.randint(1, 3)
            src = [r.choice(names) for _ in range(n)]
            if r.chance(0.4):
                src.append(src[0])  # the same mesh twice
            ev["src"] = src
        elif k == "boundary":
            ev["src"] = r.choice(names)
            ev["how"] = r.choice(["auto", "standalone"])
        elif k == "subdivide":
            ev["src"] = r.choice(names)
            ev["how"] = r.choice(["loop", "fan", "triangulate", "3quads"])
        return ev

    def _produce(self, ev):
        """returns Outcome whose value is (mesh, clean, family or None)"""
        M = self.M
        k = ev["kind"]
        from mouette.mesh.mesh_data import RawMeshData
        V = M.Vec

        def raw():
            d = RawMeshData()
            d.vertices += [list(p) for p in ev["points"]]
            if ev.get("edges"):
                d.edges += [tuple(e) for e in ev["edges"]]
            if ev.get("faces"):
                d.faces += [list(f) for f in ev["faces"]]
            if ev.get("cells"):
                d.cells += [list(c) for c in ev["cells"]]
            return M.mesh.mesh._instanciate_raw_mesh_data(d)
        a = ev.get("args")
        P = M.procedural
        fn = None
        clean = True
        if k in ("raw_surface", "raw_tets", "raw_hexes", "raw_polyline", "raw_int", "raw_cloud"):
            fn = raw
            if k == "raw_hexes":
                self.probes["hex_cells"] += 1
            if k == "raw_int":
                self.probes["int_coordinates"] += 1
        elif k == "cloud_from_arrays":
            fn = lambda: M.mesh.from_arrays(np.array(ev["points"], dtype=float))
        elif k == "from_arrays":
            fn = lambda: M.mesh.from_arrays(np.array(ev["points"], dtype=float), F=np.array(ev["faces"], dtype=int))
        elif k == "load_obj":
            from props.c02 import write_obj
            path = self.fs.root + "%s.obj" % ev["name"]
            self.fs.files[path] = write_obj({"points": ev["points"], "faces": ev["faces"], "edges": []}).encode()
            self.probes["load_producer"] += 1
            fn = lambda: M.mesh.load(path)
        elif k == "load_wider":
            from props.c02 import write_obj
            path = self.fs.root + "%s.obj" % ev["name"]
            self.fs.files[path] = write_obj({"points": ev["points"], "faces": [], "edges": ev["edges"]}).encode()
            self.probes["class_wider_than_content"] += 1
            fn = lambda: M.mesh.load(path, dim=ev["dim"])
        elif k == "ring":
            if a[2]:
                self.probes["open_ring"] += 1
            fn = lambda: P.ring(a[0], a[1], open=a[2])
        elif k == "flat_ring":
            fn = lambda: P.flat_ring(a[0], a[1])
        elif k == "triangle":
            fn = lambda: P.triangle(V(a[0]), V(a[1]), V(a[2]))
        elif k == "quad":
            fn = lambda: P.quad(V(a[0]), V(a[1]), V(a[2]), triangulate=ev["flag"])
        elif k == "tetrahedron":
            fn = lambda: P.tetrahedron(V(a[0]), V(a[1]), V(a[2]), V(a[3]), volume=ev["flag"])
        elif k == "unit_grid":
            fn = lambda: P.unit_grid(a[0], a[1], triangulate=ev["flag"])
        elif k == "unit_triangle":
            fn = lambda: P.unit_triangle(a[0], a[1])
        elif k == "cube":
            fn = lambda: P.axis_aligned_cube(triangulate=ev["flag"])
        elif k == "octahedron":
            fn = lambda: P.octahedron()
        elif k == "icosahedron":
            fn = lambda: P.icosahedron()
        elif k == "cylinder":
            fn = lambda: P.cylinder(V(a[0]), V(a[1]), radius=a[2], N=a[3], fill_caps=a[4])
        elif k == "torus":
            fn = lambda: P.torus(a[0], a[1], triangulate=ev["flag"])
        elif k == "sphere_uv":
            fn = lambda: P.sphere_uv(a[0], a[1])
        elif k == "icosphere":
            fn = lambda: P.icosphere(a[0])
        elif k == "chain":
            fn = lambda: P.chain_of_vertices(np.array(a, dtype=float), loop=ev["flag"])
        elif k == "vector_field":
            fn = lambda: P.vector_field(np.array(a, dtype=float), np.array(a[::-1], dtype=float), 0.5)
        elif k == "copy":
            src = self.pool[ev["src"]]
            if ev.get("warm") and hasattr(src, "connectivity") and len(src.vertices):
                call(lambda: (src.connectivity.vertex_to_vertices(0), src.connectivity.edge_id(0, 1),
                              src.connectivity.vertex_to_corners(0) if hasattr(src, "faces") else None))
                self.probes["copy_of_warm_source"] += 1
            fn = lambda: M.mesh.copy(src, copy_attributes=ev["flags"][0], copy_connectivity=ev["flags"][1])
        elif k == "merge":
            fn = lambda: M.mesh.merge([self.pool[s] for s in ev["src"]])
        elif k == "boundary":
            clean = False
            src = self.pool[ev["src"]]
            self.probes["boundary_producer"] += 1
            if isinstance(src, M.mesh.VolumeMesh):
                if ev["how"] == "auto":
                    def fn():
                        src.enable_boundary_connectivity()
                        return src.boundary_mesh
                else:
                    fn = lambda: M.processing.border.extract_boundary_of_volume(src)[0]
            elif isinstance(src, M.mesh.SurfaceMesh):
                fn = lambda: M.processing.border.extract_boundary_of_surface(src)[0]
            else:
                return None
        elif k == "subdivide":
            clean = False
            src = self.pool[ev["src"]]
            self.probes["subdivision_producer"] += 1
            if not isinstance(src, M.mesh.SurfaceMesh) or isinstance(src, M.mesh.VolumeMesh):
                return None

            def fn():
                with M.mesh.SurfaceSubdivision(src) as ed:
                    if ev["how"] == "loop":
                        ed.loop_subdivision(1)
                    elif ev["how"] == "fan":
                        ed.split_face_as_fan(0)
                    elif ev["how"] == "triangulate":
                        ed.triangulate()
                    else:
                        ed.subdivide_triangles_3quads()
                return ed.mesh
        o = call(fn)
        if o.ok:
            m_ = o.value
            if ev.get("attr") and clean and k not in ("copy", "merge") and m_ is not None and len(m_.vertices) and not m_.vertices.has_attribute("wa"):
                ar_ = int(ev.get("attr_k", 1))
                a_ = m_.vertices.create_attribute("wa", float, ar_, dense=(ev["attr"] == "dense"))
                for i_ in range(0, len(m_.vertices), 2):
                    a_[i_] = (0.5 + i_) if ar_ == 1 else [0.5 + i_, 1.0, -2.0 * i_][:ar_]
                self.probes["attribute_attached"] += 1
                # ... and one on a CORNER container (texture coordinates live there)
                fc_ = getattr(m_, "face_corners", None)
                if fc_ is not None and len(fc_) and not fc_.has_attribute("wc"):
                    ac_ = fc_.create_attribute("wc", float, 2)
                    for i_ in range(0, len(fc_), 3):
                        ac_[i_] = [0.25 * i_, 1.0]
            o.value = (o.value, clean)
        return o

    # ------------------------------------------------------------------ proposing
    def _owned(self, c):
        return sorted(n for n, rf in self.ref.items() if rf.owner == c)

    def _vec(self, r, lo=-5.0, hi=5.0):
        if r.chance(0.08):
            return [r.choice([1e-9, -3e-9, 5e-10, 0.0]) for _ in range(3)]  # a tiny displacement is a displacement all the same
        return [round(r.uniform(lo, hi), 3) for _ in range(3)]

    def propose(self, rng):
        cfg = self.cfg
        if len(self.pool) < cfg["n_init"]:
            c = cfg["clients"][len(self.pool) % len(cfg["clients"])]
            return self._gen_produce(self.client_rng(c), c)
        c = self.pick_client(rng, cfg["clients"], None, cfg["burst"])
        r = self.client_rng(c)
        mine = self._owned(c)
        if not mine or (len(self.pool) < 8 and r.chance(0.22)):
            return self._gen_produce(r, c)
        t = r.choice(mine)
        rf = self.ref[t]
        ops = ["translate", "translate", "rotate", "scale", "scale_xyz", "normalize", "fit_unit", "to_origin", "flatten", "inverse_pair", "rebind_vertex"]
        if self.cfg["faults_on"]:
            ops.append("bad_call")  # fault 'reject': a transform called with arguments it must refuse; no mesh of the pool may change
        if self._inplace_ok(t):
            ops += ["inplace_edit", "inplace_edit", "elem_edit"]
        if rf.A is not None:
            ops += ["attr_edit", "attr_edit"]
        op = r.choice(ops)
        ev = {"c": c, "op": op, "t": t}
        n = len(rf.P)
        if op == "translate":
            ev["v"] = self._vec(r)
        elif op == "rotate":
            ev["form"] = r.choice(["matrix", "euler", "euler_tuple", "rotation"])
            ev["angles"] = [round(r.uniform(-3, 3), 3) for _ in range(3)]
            ev["orig"] = self._vec(r, -2, 2) if r.chance(0.5) else None
            # the client keeps ONE mutable argument object (its list of angles / its 3x3 array) and overwrites it in place before each call
            ev["own_obj"] = r.chance(0.5)
        elif op == "scale":
            ev["s"] = r.choice([0.5, 2.0, -1.5, 0.1, 3.0, 0.25])
            ev["orig"] = self._vec(r, -2, 2) if r.chance(0.5) else None
            if r.chance(0.25):
                # the fixed point is a vertex object of a mesh of the pool (this one or another): "scale about that corner"
                u = r.choice(sorted(self.pool))
                if len(self.ref[u].P):
                    ev["orig_from"] = [u, r.below(len(self.ref[u].P))]
        elif op == "scale_xyz":
            ev["f"] = [r.choice([0.5, 2.0, 1.0, -1.0, 3.0]) for _ in range(3)]
            ev["orig"] = self._vec(r, -2, 2)  # always explicit: the docstring and the code disagree on the default fixed point
        elif op == "flatten":
            ev["dim"] = r.choice([None, 0, 1, 2])
        elif op == "inverse_pair":
            ev["kind"] = r.choice(["translate", "rotate", "scale"])
            ev["v"] = self._vec(r)
            ev["angles"] = [round(r.uniform(-3, 3), 3) for _ in range(3)]
            ev["s"] = r.choice([0.5, 2.0, 4.0, 0.125, -2.0])
            # the fixed point, when given, is ONE caller object handed to both calls
            ev["orig"] = self._vec(r, -2, 2) if ev["kind"] != "translate" and r.chance(0.5) else None
            # rotate: the inverse is given through the SAME caller object (matrix transposed in place / angles list overwritten)
            ev["same_obj"] = r.choice([None, None, "matrix", "euler"]) if ev["kind"] == "rotate" else None
        elif op == "bad_call":
            ev["what"] = r.choice(["rotate_two_angles", "rotate_bad_matrix", "translate_2d", "rotate_string"])
        elif op == "elem_edit":
            ev["i"] = r.below(1 << 16)
        elif op == "attr_edit":
            ev["i"] = r.below(n)
            ev["x"] = round(r.uniform(-9, 9), 3)
            ev["inplace"] = r.chance(0.5)
        elif op in ("rebind_vertex", "inplace_edit"):
            ev["i"] = r.below(n)
            ev["k"] = r.below(3)
            ev["x"] = round(r.uniform(-9, 9), 3)
            ev["p"] = self._vec(r)
        return ev

    def _inplace_ok(self, name):
        """in-place coordinate edits are judged only where the statement promises non-aliasing under edits: on copy / merge
        results, and on their inputs ("nor the reverse") when the input shares nothing with a boundary / editing-block relative"""
        rf = self.ref[name]
        tainted = any(name in o.sources for o in self.ref.values() if o.producer in ("boundary", "subdivide"))
        if tainted:
            return False  # its boundary / editing-block relatives hold views of the same vectors: outside the statement
        vs = self.pool[name].vertices
        if len({id(vs[i]) for i in range(len(vs))}) < len(vs):
            # the mesh lists one vector OBJECT twice (open ring, the outline of a face-less surface ...; a copy keeps that structure): an
            # in-place edit of one entry then moves the other by construction - intra-mesh sharing is not what the statement is about
            return False
        if rf.producer in ("copy", "merge"):
            return True
        if not rf.clean:
            return False
        return any(name in o.sources for o in self.ref.values() if o.producer in ("copy", "merge"))

    def applicable(self, ev):
        if ev["op"] == "produce":
            if ev["name"] in self.pool:
                return False
            src = ev.get("src")
            if src is not None:
                return all(s in self.pool for s in ([src] if isinstance(src, str) else src))
            return True
        if ev["t"] not in self.pool:
            return False
        rf = self.ref[ev["t"]]
        if ev.get("orig_from") and (ev["orig_from"][0] not in self.pool or ev["orig_from"][1] >= len(self.ref[ev["orig_from"][0]].P)):
            return False
        if ev["op"] in ("rebind_vertex", "inplace_edit") and ev["i"] >= len(rf.P):
            return False
        if ev["op"] in ("inplace_edit", "elem_edit") and not self._inplace_ok(ev["t"]):
            return False
        if ev["op"] in ("normalize", "fit_unit") and self._extent(rf.P) < 1e-6:
            return False
        if ev["op"] == "attr_edit" and (rf.A is None or ev["i"] >= len(rf.A)):
            return False
        return True

    @staticmethod
    def _extent(P):
        if not P:
            return 0.0
        return max(max(p[k] for p in P) - min(p[k] for p in P) for k in range(3))

    # ------------------------------------------------------------------ whole-pool comparison
    def _check_pool(self, after, target=None, expect=None, exact=False, clause="moves-every-vertex-exactly-once", ac="", touched=()):
        touched_groups = {self._alias_group(n) for n in touched if n in self.ref}
        for name in sorted(self.pool):
            rf = self.ref[name]
            now = coords(self.pool[name])
            if now != rf.P and name != target and self._alias_group(name) in touched_groups:
                rf.P = now  # another editing block ran on a member of this alias group: refreshed, not judged (C13's business)
                continue
            if name == target:
                sc = scale_of(expect)
                ok = (now == expect) if exact else close(now, expect, sc)
                if not ok:
                    bad = [i for i in range(min(len(now), len(expect))) if (now[i] != expect[i] if exact else not close([now[i]], [expect[i]], sc))][:4]
                    self.violation(clause, after, "wrong_value", "target", ac or rf.producer,
                                   "%s (%s): vertices %r are %r, expected %r%s" % (name, rf.producer, bad, [now[i] for i in bad], [expect[i] for i in bad],
                                                                                   "" if len(now) == len(expect) else " (count %d vs %d)" % (len(now), len(expect))))
                rf.P = now
            elif now != rf.P and target is not None and self._alias_group(name) == self._alias_group(target):
                # an editing block works IN PLACE: the mesh passed to it and its result are documented to be the same mesh
                # (C13: "either unchanged or equal to the result"), so they legitimately move together.  Refreshed, not judged.
                rf.P = now
            elif now == rf.P and attr_vals(self.pool[name]) != rf.A and name != target and target is not None and \
                    self._alias_group(name) == self._alias_group(target):
                rf.A = attr_vals(self.pool[name])  # same mesh by the editing-block contract: refreshed, not judged
            elif now == rf.P and attr_vals(self.pool[name]) != rf.A and name != target:
                trf = self.ref.get(target)
                self.violation("never-alias", after, "state_corrupted", "other-mesh-attribute-changed", "%s->%s" % (trf.producer if trf else "?", rf.producer),
                               "%s on %s changed the vertex attribute of mesh %s (%s): %r -> %r" % (after, target, name, rf.producer, rf.A, attr_vals(self.pool[name])))
            elif now == rf.P and elems(self.pool[name]) != rf.E and not (target is not None and self._alias_group(name) == self._alias_group(target)):
                trf = self.ref.get(target)
                self.violation("never-alias", after, "state_corrupted", "other-mesh-elements-changed", "%s->%s" % (trf.producer if trf else "?", rf.producer),
                               "%s on %s changed the element lists of mesh %s (%s)" % (after, target, name, rf.producer))
            elif now != rf.P:
                bad = [i for i in range(min(len(now), len(rf.P))) if now[i] != rf.P[i]][:4]
                trf = self.ref.get(target)
                self.violation("never-alias", after, "state_corrupted", "other-mesh-changed",
                               "%s->%s" % (trf.producer if trf else "?", rf.producer),
                               "%s on %s changed mesh %s (%s): vertices %r were %r, now %r" % (after, target, name, rf.producer, bad, [rf.P[i] for i in bad], [now[i] for i in bad]))

    # ------------------------------------------------------------------ step
    def step(self, ev):
        self.calls += 1
        M = self.M
        op = ev["op"]
        T = M.transform
        if op == "produce":
            o = self._produce(ev)
            if o is None:
                return "n/a"
            k = ev["kind"]
            if not o.ok:
                if k in ("copy", "merge"):
                    self.exc_violation("copy-merge", k, o, "/".join(sorted({self.ref[s].producer for s in ([ev["src"]] if isinstance(ev["src"], str) else ev["src"])})))
                # a producer failing is not judged here; but its inputs may have been changed (subdivision edits in place): refresh, never judge
                self._refresh_sources(ev)
                return "producer-raised:" + o.brief()
            mesh, clean = o.value
            if mesh is None or len(mesh.vertices) == 0:
                return "none"  # e.g. the boundary of a closed surface: nothing to transform
            name = ev["name"]
            self.nmesh += 1
            srcs = [ev["src"]] if isinstance(ev.get("src"), str) else list(ev.get("src") or [])
            rf = Ref(name, mesh, k, clean, None)
            rf.owner = ev["c"]
            rf.sources = srcs
            self.producers.append(k)
            if k == "subdivide" or k == "boundary":
                self._refresh_sources(ev)  # what the editing block did to its input is C13's business
            if k == "copy":
                s = self.ref[ev["src"]]
                if ev["flags"][1]:
                    self.probes["copy_connectivity"] += 1
                if rf.P != s.P or rf.E != s.E or type(mesh) is not type(self.pool[ev["src"]]):
                    self.violation("copy-equals-source", "copy", "wrong_value", "copy", s.producer, "copy of %s differs from its source" % ev["src"])
                src_mesh = self.pool[ev["src"]]
                if s.A is not None:
                    if ev["flags"][0]:
                        if rf.A != s.A:
                            self.violation("copy-equals-source", "copy", "wrong_value", "attributes", s.producer,
                                           "copy(%s, copy_attributes=True): vertex attribute 'wa' reads %r, the source's reads %r" % (ev["src"], rf.A, s.A))
                        a1, a2 = mesh.vertices.get_attribute("wa"), src_mesh.vertices.get_attribute("wa")
                        d1, d2 = getattr(a1, "_data", None), getattr(a2, "_data", None)
                        if a1 is a2 or d1 is d2 or (isinstance(d1, np.ndarray) and isinstance(d2, np.ndarray) and np.shares_memory(d1, d2)):
                            self.violation("copy-shares-no-mutable-state", "copy", "state_corrupted", "shared:attribute-storage", "flags=%r" % (ev["flags"],),
                                           "the copy's vertex attribute shares its storage with the source's")
                if ev["flags"][0] and hasattr(src_mesh, "face_corners") and src_mesh.face_corners.has_attribute("wc"):
                    self.probes["corner_attribute_copied"] += 1
                    ok_ = hasattr(mesh, "face_corners") and mesh.face_corners.has_attribute("wc")
                    rd_ = lambda mm: [[float(x) for x in mm.face_corners.get_attribute("wc")[i_]] for i_ in range(len(mm.face_corners))]
                    if not ok_ or rd_(mesh) != rd_(src_mesh):
                        self.violation("copy-equals-source", "copy", "wrong_value", "corner-attributes", s.producer,
                                       "copy(%s, copy_attributes=True): the attribute 'wc' of the face corners %s" % (ev["src"], "is missing" if not ok_ else "reads other values"))
                # "a copy equals its source": the corner records too (element and owner of every face-vertex, cell-vertex, cell-face incidence)
                for cn in ("face_corners", "cell_corners", "cell_faces"):
                    if hasattr(mesh, cn) and hasattr(src_mesh, cn):
                        mine = (list(map(int, getattr(mesh, cn)._elem)), list(map(int, getattr(mesh, cn)._adj)))
                        theirs = (list(map(int, getattr(src_mesh, cn)._elem)), list(map(int, getattr(src_mesh, cn)._adj)))
                        if mine != theirs:
                            self.violation("copy-equals-source", "copy", "wrong_value", cn, s.producer,
                                           "copy of %s: %s holds (elements, owners) %r, the source's %r" % (ev["src"], cn, (mine[0][:12], mine[1][:12]), (theirs[0][:12], theirs[1][:12])))
                shared = [cn for cn in ("vertices", "edges", "faces", "cells", "face_corners", "cell_corners", "cell_faces", "connectivity")
                          if hasattr(mesh, cn) and getattr(mesh, cn) is getattr(src_mesh, cn)]
                for cn in ("vertices", "edges", "faces", "cells"):
                    if hasattr(mesh, cn) and any(x is y and isinstance(x, (list, np.ndarray)) for x, y in zip(getattr(mesh, cn), getattr(src_mesh, cn))):
                        shared.append(cn + "[i]")  # the same mutable element object sits in both meshes
                if hasattr(mesh, "connectivity") and hasattr(src_mesh, "connectivity"):
                    # the computed tables too: the same dict, or the same mutable ring / record inside two dicts, is shared mutable state
                    for kname, tab in vars(src_mesh.connectivity).items():
                        mine = vars(mesh.connectivity).get(kname)
                        if isinstance(tab, dict) and isinstance(mine, dict):
                            if tab is mine:
                                shared.append("connectivity." + kname)
                            elif any(isinstance(v, (list, set, dict, np.ndarray)) and mine.get(q) is v for q, v in tab.items()):
                                shared.append("connectivity.%s[...]" % kname)
                if shared:
                    self.violation("copy-shares-no-mutable-state", "copy", "state_corrupted", "shared:" + ",".join(shared),
                                   "flags=%r" % (ev["flags"],), "copy(%s, copy_attributes=%r, copy_connectivity=%r) shares %s with its source" % (ev["src"], ev["flags"][0], ev["flags"][1], shared))
            if k == "merge":
                if len(srcs) != len(set(srcs)):
                    self.probes["merge_same_twice"] += 1
                if any(not hasattr(self.pool[s_], "edges") for s_ in srcs) and len(srcs) > 1:
                    self.probes["cloud_in_merge"] += 1
                expP, expE, off = [], {"edges": [], "faces": [], "cells": []}, 0
                for s in srcs:
                    sr = self.ref[s]
                    expP += sr.P
                    for kk in expE:
                        expE[kk] += [tuple(v + off for v in e) for e in sr.E.get(kk, [])]
                    off += len(sr.P)
                ac = "/".join(sorted({self.ref[s].producer for s in srcs}))
                if rf.P != expP:
                    self.violation("merge-is-disjoint-union", "merge", "wrong_value", "vertices", ac, "merged vertices differ from the concatenation of the inputs")
                for kk in ("faces", "cells"):
                    if expE[kk] and rf.E.get(kk, []) != expE[kk]:
                        self.violation("merge-is-disjoint-union", "merge", "wrong_value", kk, ac, "merged %s %r, expected inputs shifted by the running vertex count %r" % (kk, rf.E.get(kk), expE[kk]))
                if sorted(rf.E.get("edges", [])) != sorted(tuple(sorted(e)) for e in expE["edges"]) and not (expE["faces"] or expE["cells"]):
                    self.violation("merge-is-disjoint-union", "merge", "wrong_value", "edges", ac, "merged edges %r, expected %r" % (rf.E.get("edges"), expE["edges"]))
            self.pool[name] = mesh
            self.ref[name] = rf
            self._refresh_sources(ev)
            self._check_pool("produce:" + k, touched=srcs if k == "subdivide" else ())
            return "%s:%s" % (k, type(mesh).__name__)
        # ---------------- transforms / edits on an owned mesh
        t = ev["t"]
        mesh, rf = self.pool[t], self.ref[t]
        P = [list(p) for p in rf.P]
        self.kinds.append(op)
        self.ntrans += 1
        if rf.sources or any(t in o.sources for o in self.ref.values()):
            self.faults["aliasing_schedule"] += 1  # fired: the call lands on a mesh that has a source or a derived mesh alive in the pool
        V = M.Vec
        exact = False
        clause = "moves-every-vertex-exactly-once"
        if op == "translate":
            o = call(T.translate, mesh, V(ev["v"]))
            exp = [[p[k] + ev["v"][k] for k in range(3)] for p in P]
            exact = all(isinstance(x, float) for p in P for x in p)
        elif op == "rotate":
            R = rot_matrix("euler", ev["angles"])
            from scipy.spatial.transform import Rotation
            arg = {"matrix": np.array(R), "euler": list(ev["angles"]), "euler_tuple": tuple(ev["angles"]), "rotation": Rotation.from_euler("xyz", ev["angles"])}[ev["form"]]
            if ev.get("own_obj") and ev["form"] in ("matrix", "euler"):
                key = (ev["c"], ev["form"])
                if key in self.rot_objs:
                    self.probes["rotation_arg_reused"] += 1
                    self.rot_objs[key][:] = arg
                else:
                    self.rot_objs[key] = arg
                arg = self.rot_objs[key]
            orig = None if ev["orig"] is None else V(ev["orig"])
            o = call(T.rotate, mesh, arg, orig)
            og = np.zeros(3) if ev["orig"] is None else np.array(ev["orig"])
            exp = [list(og + R @ (np.array(p) - og)) for p in P]
        elif op == "scale":
            orig = None if ev["orig"] is None else V(ev["orig"])
            og = [0.0] * 3 if ev["orig"] is None else ev["orig"]
            if ev.get("orig_from"):
                u, k_ = ev["orig_from"]
                orig = self.pool[u].vertices[k_]
                og = [float(x) for x in self.ref[u].P[k_]]
                self.probes["orig_is_a_vertex"] += 1
            o = call(T.scale, mesh, ev["s"], orig)
            exp = [[og[k] + ev["s"] * (p[k] - og[k]) for k in range(3)] for p in P]
        elif op == "scale_xyz":
            orig = None if ev["orig"] is None else V(ev["orig"])
            o = call(T.scale_xyz, mesh, ev["f"][0], ev["f"][1], ev["f"][2], orig)
            og = list(P[0]) if ev["orig"] is None else ev["orig"]  # documented default: first vertex is the fixed point
            exp = [[og[k] + ev["f"][k] * (p[k] - og[k]) for k in range(3)] for p in P]
        elif op in ("normalize", "fit_unit"):
            self.probes["normalize"] += 1
            o = call(T.normalize if op == "normalize" else T.fit_into_unit_cube, mesh)
            lo = [min(p[k] for p in P) for k in range(3)]
            hi = [max(p[k] for p in P) for k in range(3)]
            ext = max(hi[k] - lo[k] for k in range(3))
            if op == "normalize":
                ctr = [(lo[k] + hi[k]) / 2 for k in range(3)]
                exp = [[2 * (p[k] - ctr[k]) / ext for k in range(3)] for p in P]
            else:
                exp = [[(p[k] - lo[k]) / ext for k in range(3)] for p in P]
            clause = "normalise-box-where-documented"
        elif op == "to_origin":
            o = call(T.translate_to_origin, mesh)
            b = [sum(p[k] for p in P) / len(P) for k in range(3)]
            exp = [[p[k] - b[k] for k in range(3)] for p in P]
        elif op == "flatten":
            self.probes["flatten"] += 1
            o = call(T.flatten, mesh, ev["dim"])
            d = ev["dim"]
            if d is None:
                var = [float(np.var([p[k] for p in P])) for k in range(3)]
                now = coords(mesh) if o.ok else P
                zero = [k for k in range(3) if all(q[k] == 0.0 for q in now)]
                cands = [k for k in zero if var[k] <= min(var) * (1 + 1e-9) + 1e-300]
                d = cands[0] if cands else int(np.argmin(var))
            exp = [[0.0 if k == d else p[k] for k in range(3)] for p in P]
            exact = True
        elif op == "inverse_pair":
            self.probes["inverse_pair"] += 1
            kind = ev["kind"]
            if kind == "translate":
                o = call(lambda: T.translate(T.translate(mesh, V(ev["v"])), V([-x for x in ev["v"]])))
            elif kind == "rotate":
                R = rot_matrix("euler", ev["angles"])
                c0 = None if ev.get("orig") is None else V(ev["orig"])
                if ev.get("same_obj") == "matrix":
                    self.probes["rotation_arg_reused"] += 1
                    Mx = np.array(R)

                    def pair():
                        T.rotate(mesh, Mx, c0)
                        Mx[:] = R.T
                        return T.rotate(mesh, Mx, c0)
                    o = call(pair)
                elif ev.get("same_obj") == "euler":
                    # rotate(xyz-Euler a) = Rz(c) Ry(b) Rx(a) about fixed axes; undone by three single-axis calls through one list
                    self.probes["rotation_arg_reused"] += 1
                    a3 = list(ev["angles"])
                    R = rot_matrix("euler", a3)

                    def pair():
                        ang = list(a3)
                        T.rotate(mesh, ang, c0)
                        for k_ in (2, 1, 0):
                            ang[:] = [-a3[q] if q == k_ else 0.0 for q in range(3)]
                            T.rotate(mesh, ang, c0)
                        return mesh
                    o = call(pair)
                else:
                    o = call(lambda: T.rotate(T.rotate(mesh, np.array(R), c0), np.array(R.T), c0))
            else:
                c0 = None if ev.get("orig") is None else V(ev["orig"])
                o = call(lambda: T.scale(T.scale(mesh, ev["s"], c0), 1.0 / ev["s"], c0))
            exp = P
            clause = "inverse-pair-restores"
        elif op == "elem_edit":
            # rotate one face (or cell) cyclically IN PLACE when it is stored as a mutable row: same element, same orientation, but any
            # mesh sharing the row object sees it ("a copy shares no mutable state"; "editing the result never changes an input")
            cont = getattr(mesh, "faces", None) if hasattr(mesh, "faces") and len(getattr(mesh, "faces")) else None
            rows_ = [j for j in range(len(cont))] if cont is not None else []
            rows_ = [j for j in rows_ if isinstance(cont[j], (list, np.ndarray))]
            if not rows_:
                self.ntrans -= 1
                self.kinds.pop()
                return "no-mutable-element"
            j = rows_[ev["i"] % len(rows_)]
            self.probes["elem_edit"] += 1

            def edit():
                row = cont[j]
                first = row[0] if not isinstance(row, np.ndarray) else row[0].copy()
                for q in range(len(row) - 1):
                    row[q] = row[q + 1]
                row[len(row) - 1] = first
                if hasattr(mesh, "connectivity"):
                    mesh.connectivity.clear()
            o = call(edit)
            exp = [list(p) for p in P]
            exact = True
            clause = "edit-own-mesh"
            rf.E = None  # re-read below
        elif op == "bad_call":
            what = ev["what"]
            if what == "rotate_two_angles":
                o = call(T.rotate, mesh, [0.3, 0.4])
            elif what == "rotate_bad_matrix":
                o = call(T.rotate, mesh, np.eye(2))
            elif what == "translate_2d":
                o = call(T.translate, mesh, V([1.0, 2.0]))
            else:
                o = call(T.rotate, mesh, "xyz")
            self.faults["reject"] += 1
            self.ntrans -= 1
            self.kinds.pop()
            # whatever the call did (these arguments are outside the documented domain), a call that RAISED must leave every mesh as it was
            if not o.ok:
                self._check_pool("bad_call:" + what, t, [list(p) for p in P], True, "rejected-call-changes-nothing", rf.producer)
            else:
                rf.P = coords(mesh)
                self._check_pool("bad_call:" + what)
            return "raised" if not o.ok else "accepted"
        elif op == "attr_edit":
            self.probes["attr_edit"] += 1

            ar_ = len(rf.A[ev["i"]])
            inplace = bool(ev.get("inplace")) and ar_ > 1

            def edit():
                a_ = mesh.vertices.get_attribute("wa")
                if inplace:
                    v_ = a_[ev["i"]]   # the value read from one entry is changed in place (whether that writes through is the attribute's
                    v_ += float(ev["x"])  # business - C05; here: no OTHER mesh may see it)
                else:
                    a_[ev["i"]] = float(ev["x"]) if ar_ == 1 else [float(ev["x"])] * ar_
            o = call(edit)
            exp = [list(p) for p in P]
            exact = True
            clause = "edit-own-mesh"
            if o.ok and inplace:
                self.probes["vector_attribute_edit"] += 1
                rf.A = attr_vals(mesh)
            elif o.ok:
                rf.A = list(rf.A)
                rf.A[ev["i"]] = [float(ev["x"])] * ar_
                if attr_vals(mesh) != rf.A:
                    self.violation(clause, op, "wrong_value", "attribute", rf.producer, "attribute edit did not land: %r vs %r" % (attr_vals(mesh), rf.A))
        elif op == "rebind_vertex":
            def edit():

                mesh.vertices[ev["i"]] = V(ev["p"])
            o = call(edit)
            exp = [list(p) for p in P]
            exp[ev["i"]] = [float(x) for x in ev["p"]]
            exact = True
            clause = "edit-own-mesh"
        elif op == "inplace_edit":
            self.probes["inplace_edit"] += 1
            if rf.producer == "merge":
                self.probes["merge_result_edited"] += 1
            elif rf.producer == "copy":
                self.probes["copy_edited"] += 1
            else:
                self.probes["source_edited_after_copy"] += 1

            def edit():
                mesh.vertices[ev["i"]][ev["k"]] = ev["x"]
            o = call(edit)
            exp = [list(p) for p in P]
            integer = getattr(mesh.vertices[ev["i"]], "dtype", np.dtype(float)).kind in "iu"
            exp[ev["i"]][ev["k"]] = float(int(ev["x"])) if integer else float(ev["x"])  # numpy truncates on assignment into an int vector
            if o.ok and rf.producer not in ("copy", "merge"):
                # a procedural input may list one vector twice (open ring): what else moves inside the edited INPUT is not judged,
                # only that the edit landed and (below) that no copy / merge result moved
                now = coords(mesh)
                if now[ev["i"]][ev["k"]] == exp[ev["i"]][ev["k"]]:
                    exp = now
            exact = True
            clause = "edit-own-mesh"
        else:
            raise ValueError(op)
        ac = rf.producer + ("/int" if rf.producer == "raw_int" else "")
        if not o.ok:
            self.exc_violation(clause, op, o, ac, "%s on %s (%s) raised" % (op, t, rf.producer))
        if op not in ("rebind_vertex", "inplace_edit", "elem_edit", "attr_edit") and o.value is not mesh:
            self.violation(clause, op, "wrong_value", "return", ac, "%s does not return the mesh it was given" % op)
        if rf.E is None:
            rf.E = elems(mesh)
        elif o.ok and op not in ("elem_edit",) and elems(mesh) != rf.E and not any(t in self._alias_group(n) for n in self.ref if self.ref[n].producer == "subdivide"):
            self.violation(clause, op, "state_corrupted", "target-elements-changed", ac, "%s changed the element lists of the mesh it was applied to" % op)
        self._check_pool(op, t, [[float(x) for x in p] for p in exp], exact, clause, ac)
        if op in ("normalize", "fit_unit"):
            now = self.ref[t].P
            lo = [min(p[k] for p in now) for k in range(3)]
            hi = [max(p[k] for p in now) for k in range(3)]
            ext = max(hi[k] - lo[k] for k in range(3))
            if op == "normalize":
                ok = abs(ext - 2) < 1e-9 and all(abs(lo[k] + hi[k]) < 1e-9 for k in range(3))
            else:
                ok = abs(ext - 1) < 1e-9 and all(abs(lo[k]) < 1e-9 for k in range(3))
            if not ok:
                self.violation("normalise-box-where-documented", op, "wrong_value", "bbox", ac, "after %s the bounding box is [%r, %r]" % (op, lo, hi))
        return "ok"

    def _alias_group(self, name):
        """meshes tied together by an editing block (source <-> result), transitively"""
        grp, todo = {name}, [name]
        while todo:
            n = todo.pop()
            for o, rf in self.ref.items():
                if rf.producer != "subdivide":
                    continue
                linked = set(rf.sources) | {o}
                if n in linked and not linked <= grp:
                    todo += [x for x in linked if x not in grp]
                    grp |= linked
        return frozenset(grp)

    def _refresh_sources(self, ev):
        """after an editing block, every member of the alias groups of its inputs is re-read (what the block did to them is C13's business)"""
        if ev["kind"] != "subdivide":
            return
        srcs = [ev["src"]] if isinstance(ev.get("src"), str) else list(ev.get("src") or [])
        for s0 in srcs:
            if s0 not in self.ref:
                continue
            for s in self._alias_group(s0):
                if s in self.pool:
                    self.ref[s].P = coords(self.pool[s])
                    self.ref[s].E = elems(self.pool[s])
                    self.ref[s].A = attr_vals(self.pool[s])
                    self.ref[s].clean = False

    def nontrivial(self):
        return len(self.pool) >= 2 and self.ntrans >= 2

    def class_key(self):
        return "%s|%s" % (",".join(sorted(self.producers)), ">".join(self.kinds[:8]))


SIM = C06
