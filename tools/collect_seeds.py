#!/usr/bin/env python3
"""Copies the sub-agents' seeded regressions from /tmp/seeds/<P>/<i>/ to /verif/seeded/<P>-<i>/ and (re-)evaluates each one with
tools/try_seed.py --suite, writing meta.json (property, what it needs to manifest, what was run, verdict, signature)."""
import json, os, shutil, subprocess, sys
props = sys.argv[1:]
rnd = 1
if props and props[0] == "--round":
    rnd = int(props[1]); props = props[2:]
for P in props:
    for i in (1, 2, 3):
        src = "/tmp/seeds%s/%s/%d" % ("" if rnd == 1 else str(rnd), P, i)
        dst = "/verif/seeded/%s-%d" % (P, i + 3 * (rnd - 1))
        if os.path.isdir(src):
            os.makedirs(dst, exist_ok=True)
            for f in ("patch.diff", "demo.py", "notes.md"):
                if os.path.exists(os.path.join(src, f)):
                    shutil.copy(os.path.join(src, f), os.path.join(dst, f))
        if not os.path.exists(os.path.join(dst, "patch.diff")):
            continue
        CHECK = {"C03-4": "C13", "C03-9": "C13", "C03-12": "C13", "C12-11": "C06", "C03-13": "C13", "C01-23": "C13"}  # a regression written against one property may live in another check's domain
        chk = CHECK.get(os.path.basename(dst), P)
        r = subprocess.run(["python3", "/verif/tools/try_seed.py", dst, chk, "--suite"], capture_output=True, text=True)
        try:
            d = json.loads(r.stdout)
        except Exception:
            d = {"error": r.stdout[-500:] + r.stderr[-500:]}
        notes = open(os.path.join(dst, "notes.md")).read() if os.path.exists(os.path.join(dst, "notes.md")) else ""
        old = {}
        if os.path.exists(os.path.join(dst, "meta.json")):
            old = json.load(open(os.path.join(dst, "meta.json")))
        meta = {
            "property": P, "caught_by_check": chk,
            "origin": "fresh sub-agent given only the property's statement and quantifier text and its own scratch worktree (tools/seed_prompt_template.txt)",
            "needs_to_manifest": old.get("needs_to_manifest", ""),
            "what_was_run": ["cd <scratch worktree of /repo HEAD> && /venv/bin/python demo.py  -> exit %s (clean)" % d.get("demo_clean"),
                             "git apply patch.diff; /venv/bin/python demo.py -> exit %s (patched): %s" % (d.get("demo_patched"), d.get("demo_msg", "")),
                             "pinned test-suite on the patched worktree: stable_pass tests not passing = %r" % (d.get("suite_missing"),),
                             "VERIF_REPO=<patched worktree> ./check %s (quick tier) -> exit %s in %ss" % (chk, d.get("check_exit"), d.get("check_wall_s"))],
            "confirmed": bool(d.get("demo_clean") == 0 and d.get("demo_patched") == 1 and d.get("suite_missing") == []),
            "verdict": d.get("verdict"),
            "first_signatures": d.get("signatures", []),
            "missed_before_strengthening": old.get("missed_before_strengthening", False),
            "strengthening": old.get("strengthening", ""),
        }
        json.dump(meta, open(os.path.join(dst, "meta.json"), "w"), indent=1)
        print(P, i + 3 * (rnd - 1), meta["confirmed"], meta["verdict"], (meta["first_signatures"] or [""])[0][:120])
