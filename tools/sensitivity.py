#!/usr/bin/env python3
"""Sensitivity self-test (DESIGN.md section 8.2): every mutant of tools/mutants.json is applied to a scratch copy of mouette
(never /repo) and the property's check must report a VIOLATION within its quick budget.  Prints caught / missed."""
import json, os, shutil, subprocess, sys, tempfile, concurrent.futures as cf
HERE = os.path.dirname(os.path.abspath(__file__))
muts = json.load(open(os.path.join(HERE, "mutants.json")))
only = set(sys.argv[1:])


def run(m):
    d = tempfile.mkdtemp(prefix="mouette_mut_")
    try:
        shutil.copytree("/repo/mouette", os.path.join(d, "mouette"), ignore=shutil.ignore_patterns("__pycache__"))
        p = os.path.join(d, "mouette", m["file"])
        s = open(p).read()
        if m["old"] not in s:
            return m, "PATTERN-NOT-FOUND", ""
        open(p, "w").write(s.replace(m["old"], m["new"], 1))
        env = dict(os.environ, VERIF_REPO=d, VERIF_NO_EVIDENCE="1", VERIF_REPLAY_DIR=os.path.join(d, "replays"), VERIF_WORKERS="4")
        r = subprocess.run(["/verif/check", m["prop"]], env=env, capture_output=True, text=True)
        sig = [l.strip() for l in r.stdout.splitlines() if l.startswith("  signature=")]
        return m, {0: "MISSED", 1: "CAUGHT", 2: "HARNESS-ERROR"}.get(r.returncode, str(r.returncode)), (sig[0][:150] if sig else "")
    finally:
        shutil.rmtree(d, ignore_errors=True)


todo = [m for m in muts if not only or m["prop"] in only]
res = []
with cf.ThreadPoolExecutor(max_workers=4) as ex:
    for m, verdict, sig in ex.map(run, todo):
        print("%-8s %s  %-60s %s" % (verdict, m["prop"], m["what"][:60], sig))
        res.append(verdict)
print("caught %d / %d" % (res.count("CAUGHT"), len(res)))
sys.exit(0 if all(v == "CAUGHT" for v in res) else 1)
