#!/usr/bin/env python3
"""Sensitivity self-test helper: run a check against a scratch copy of mouette with one textual mutation.
usage: tools/mutant.py <relative file under mouette/> <old text> <new text> <PROP> [runs]
The scratch copy lives under /tmp and is removed afterwards; /repo is never touched."""
import os, shutil, subprocess, sys, tempfile

rel, old, new, prop = sys.argv[1:5]
runs = sys.argv[5] if len(sys.argv) > 5 else "1500"
d = tempfile.mkdtemp(prefix="mouette_mut_")
try:
    shutil.copytree("/repo/mouette", os.path.join(d, "mouette"), ignore=shutil.ignore_patterns("__pycache__"))
    p = os.path.join(d, "mouette", rel)
    s = open(p).read()
    if s.count(old) < 1:
        sys.exit("pattern not found in %s" % rel)
    open(p, "w").write(s.replace(old, new, 1))
    env = dict(os.environ, VERIF_REPO=d, VERIF_NO_EVIDENCE="1", VERIF_REPLAY_DIR=os.path.join(d, "replays"))
    r = subprocess.run(["/verif/check", prop, "--runs", runs], env=env, capture_output=True, text=True)
    lines = [l for l in r.stdout.splitlines() if l.startswith(("VIOLATION", "  signature", "HARNESS", "KNOWN"))]
    print("exit=%d" % r.returncode)
    print("\n".join(lines[:6]))
    if r.returncode == 2:
        print(r.stdout[-1500:], r.stderr[-1500:])
finally:
    shutil.rmtree(d, ignore_errors=True)
