#!/usr/bin/env python3
"""Markdown table of the kept seeded regressions (from seeded/*/meta.json)."""
import glob, json, os
print("| seed | needs, in order to manifest | verdict (quick tier) | first signature (clause / op / kind) | strengthened? |")
print("|---|---|---|---|---|")
def keyf(m):
    b = os.path.basename(os.path.dirname(m)); p, i = b.split("-"); return (p, int(i))
for m in sorted(glob.glob("/verif/seeded/*/meta.json"), key=keyf):
    d = json.load(open(m))
    sig = (d.get("first_signatures") or [""])[0]
    sig = sig.replace("signature=", "").split(" seed=")[0]
    parts = sig.split("|")
    short = " / ".join(parts[1:4]) if len(parts) > 3 else sig
    print("| %s | %s | %s | %s | %s |" % (os.path.basename(os.path.dirname(m)), d.get("needs_to_manifest", ""), d.get("verdict"), short,
                                        ("missed at first; " + d["strengthening"]) if d.get("missed_before_strengthening") else "no"))
