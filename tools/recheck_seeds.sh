#!/bin/bash
# re-evaluates every kept seeded regression against the current checks (no test-suite run): prints one line per seed, MISSED ones last
cd /verif
ls seeded | xargs -P 6 -I{} sh -c 'chk=$(python3 -c "import json;print(json.load(open(\"seeded/{}/meta.json\"))[\"caught_by_check\"])"); v=$(python3 tools/try_seed.py /verif/seeded/{} $chk | grep -E "\"verdict\"" | cut -d\" -f4); echo "{} $chk $v"' | sort | tee /tmp/recheck.log | grep -v CAUGHT
echo "caught: $(grep -c CAUGHT /tmp/recheck.log) / $(wc -l < /tmp/recheck.log)"
