#!/bin/bash
# Determinism self-test: per claimed property, N run seeds executed in two fresh interpreters with different PYTHONHASHSEED
# (and, by construction of --digests, in one process serially vs. the pool used by regular batches); the event-log digests must be identical.
N=${1:-150}
cd /verif
rc=0
for p in $(python3 -c "import json;print(' '.join(c['property_id'] for c in json.load(open('MANIFEST.json'))['checks']))"); do
  a=$(PYTHONHASHSEED=0 ./check $p --digests --runs $N 2>/dev/null | sha256sum | cut -c1-16)
  b=$(PYTHONHASHSEED=12345 ./check $p --digests --runs $N 2>/dev/null | sha256sum | cut -c1-16)
  c=$(PYTHONHASHSEED=777 VERIF_TIER=quick ./check $p --digests --runs $N 2>/dev/null | sha256sum | cut -c1-16)
  if [ "$a" == "$b" ] && [ "$b" == "$c" ]; then echo "$p deterministic ($N seeds x 3 interpreters) $a"; else echo "$p NONDETERMINISTIC $a $b $c"; rc=1; fi
done
exit $rc
