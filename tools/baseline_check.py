#!/usr/bin/env python3
"""Runs the pinned test-suite command and reports every test of BASELINE.stable_pass that does not pass."""
import json, os, subprocess, sys, tempfile
import xml.etree.ElementTree as ET
b = json.load(open("/root/.vp/BASELINE.json"))
fd, xml = tempfile.mkstemp(suffix=".xml"); os.close(fd)
cmd = b["cmd"].replace("<file>", xml)
if "-n" not in cmd and os.environ.get("FAST", "1") == "1":
    cmd = cmd.replace("-m pytest", "-m pytest -n 8")
subprocess.run(cmd, shell=True, stdout=subprocess.DEVNULL, stderr=subprocess.DEVNULL)
passed = set()
for tc in ET.parse(xml).getroot().iter("testcase"):
    if not any(ch.tag in ("failure", "error", "skipped") for ch in tc):
        passed.add("%s::%s" % (tc.get("classname"), tc.get("name")))
os.remove(xml)
missing = [t for t in b["stable_pass"] if t not in passed]
print("stable_pass=%d passed_now=%d missing=%d" % (len(b["stable_pass"]), len(passed), len(missing)))
for t in missing[:40]:
    print("  NOT PASSING:", t)
sys.exit(1 if missing else 0)
