#!/usr/bin/env python3
"""Evaluate one seeded regression (a directory with patch.diff + demo.py) against the checks.

usage: tools/try_seed.py <seed dir> <PROP> [--runs N] [--suite]
 1. makes a scratch git worktree of /repo HEAD under /tmp, checks demo.py PASSes there,
 2. applies patch.diff, checks demo.py FAILs, (--suite: the pinned test-suite still passes as in BASELINE.json),
 3. runs ./check <PROP> (quick tier or --runs N) against the patched copy (VERIF_REPO), reports caught / missed,
 4. removes the worktree.  /repo itself is never modified."""
import json
import os
import shutil
import subprocess
import sys
import tempfile
import time


def sh(cmd, **kw):
    return subprocess.run(cmd, shell=True, capture_output=True, text=True, **kw)


def main():
    d, prop = sys.argv[1], sys.argv[2]
    runs = None
    if "--runs" in sys.argv:
        runs = sys.argv[sys.argv.index("--runs") + 1]
    suite = "--suite" in sys.argv
    wt = tempfile.mkdtemp(prefix="eval_wt_")
    os.rmdir(wt)
    out = {"seed": d, "property": prop}
    try:
        r = sh("git -C /repo worktree add -q --detach %s HEAD" % wt)
        if r.returncode:
            print(r.stderr)
            return 2
        demo = os.path.join(d, "demo.py")
        r0 = sh("cd %s && /venv/bin/python %s" % (wt, demo))
        out["demo_clean"] = r0.returncode
        ra = sh("git -C %s apply %s" % (wt, os.path.join(d, "patch.diff")))
        if ra.returncode:
            out["apply"] = ra.stderr[-300:]
            print(json.dumps(out))
            return 2
        r1 = sh("cd %s && /venv/bin/python %s" % (wt, demo))
        out["demo_patched"] = r1.returncode
        out["demo_msg"] = (r1.stdout.strip().splitlines() or [""])[-1][:200]
        if suite:
            b = json.load(open("/root/.vp/BASELINE.json"))
            xml = os.path.join(wt, "_junit.xml")
            cmd = b["cmd"].replace("cd /repo", "cd " + wt).replace("<file>", xml).replace("-m pytest", "-m pytest -n 8")
            sh(cmd)
            import xml.etree.ElementTree as ET
            passed = set()
            for tc in ET.parse(xml).getroot().iter("testcase"):
                if not any(ch.tag in ("failure", "error", "skipped") for ch in tc):
                    passed.add("%s::%s" % (tc.get("classname"), tc.get("name")))
            missing = [t for t in b["stable_pass"] if t not in passed]
            out["suite_missing"] = missing[:5]
            os.remove(xml)
        env = dict(os.environ, VERIF_REPO=wt, VERIF_NO_EVIDENCE="1", VERIF_REPLAY_DIR=os.path.join(wt, "_replays"))
        t0 = time.time()
        cmd = ["/verif/check", prop] + (["--runs", runs] if runs else [])
        rc = subprocess.run(cmd, env=env, capture_output=True, text=True)
        out["check_exit"] = rc.returncode
        out["check_wall_s"] = round(time.time() - t0, 1)
        sigs = [l.strip() for l in rc.stdout.splitlines() if l.startswith("  signature=")]
        out["signatures"] = [s[:220] for s in sigs[:4]]
        out["verdict"] = "CAUGHT" if rc.returncode == 1 else ("HARNESS-ERROR" if rc.returncode == 2 else "MISSED")
        if rc.returncode == 2:
            out["harness"] = rc.stdout[-800:]
        print(json.dumps(out, indent=1))
        return 0
    finally:
        sh("git -C /repo worktree remove --force %s" % wt)
        shutil.rmtree(wt, ignore_errors=True)
        sh("git -C /repo worktree prune")


if __name__ == "__main__":
    sys.exit(main())
