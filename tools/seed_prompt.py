#!/usr/bin/env python3
"""Writes the instruction file handed to a fresh sub-agent that must produce realistic regressions for ONE property.
The file contains only the property's statement and quantifier text and a scratch worktree path - nothing from /verif.
usage: tools/seed_prompt.py C01 C02 ...   ->  /tmp/seeds/prompt_<id>.txt"""
import json, os, sys
T = open(os.path.join(os.path.dirname(os.path.abspath(__file__)), "seed_prompt_template.txt")).read()
props = {}
for l in open('/verif/properties.jsonl'):
    d = json.loads(l)
    props[d['id']] = d
os.makedirs('/tmp/seeds', exist_ok=True)
for pid in sys.argv[1:]:
    d = props[pid]
    open('/tmp/seeds/prompt_%s.txt' % pid, 'w').write(T.format(wt='/tmp/wt_' + pid, stmt=d['statement'], quant=d['quantifier']['text'], pid=pid))
    print('/tmp/seeds/prompt_%s.txt' % pid)
