#!/usr/bin/env python3
"""Writes the instruction file handed to a fresh sub-agent that must produce realistic regressions for ONE property.
The file contains only the property's statement and quantifier text, a scratch worktree path and - from round 2 on - one line per
regression idea already delivered by earlier agents (so that new agents produce different ones).  Nothing about the checks in /verif.
usage: tools/seed_prompt.py [--round N] C01 C02 ...   ->  /tmp/seeds<N>/prompt_<id>.txt  (round 1: /tmp/seeds)"""
import glob, json, os, sys
args = sys.argv[1:]
rnd = 1
if args and args[0] == "--round":
    rnd = int(args[1]); args = args[2:]
T = open(os.path.join(os.path.dirname(os.path.abspath(__file__)), "seed_prompt_template.txt")).read()
props = {}
for l in open('/verif/properties.jsonl'):
    d = json.loads(l)
    props[d['id']] = d
out = '/tmp/seeds' + ('' if rnd == 1 else str(rnd))
os.makedirs(out, exist_ok=True)
for pid in args:
    d = props[pid]
    txt = T.format(wt='/tmp/wt%s_%s' % ('' if rnd == 1 else str(rnd), pid), stmt=d['statement'], quant=d['quantifier']['text'], pid=pid)
    txt = txt.replace('/tmp/seeds/', out + '/')
    if rnd > 1:
        taken = []
        for m in sorted(glob.glob('/verif/seeded/%s-*/meta.json' % pid)):
            pp = os.path.join(os.path.dirname(m), 'patch.diff')
            patch = open(pp).read() if os.path.exists(pp) else ""
            files = sorted({l[6:].strip() for l in patch.splitlines() if l.startswith('+++ b/')})
            taken.append('  - %s (in %s)' % (json.load(open(m)).get('needs_to_manifest', ''), ', '.join(files)))
        txt += "\n\nIDEAS ALREADY TAKEN by earlier engineers - produce DIFFERENT ones (other functions, other mechanisms, other triggers):\n" + "\n".join(taken) + "\n"
    open('%s/prompt_%s.txt' % (out, pid), 'w').write(txt)
    print('%s/prompt_%s.txt' % (out, pid))
