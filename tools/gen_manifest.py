#!/usr/bin/env python3
"""Regenerates /verif/MANIFEST.json from the table below (keeps it schema-valid by construction)."""
import json
import os

HERE = os.path.dirname(os.path.dirname(os.path.abspath(__file__)))

CLAIMED = {
    "C01": ("4 (C01)", "shared SurfaceMesh (list / tuple / numpy rows) queried by interleaved clients, cache drops with or without a switch of the sorting mode, failing queries, another surface used in between, background library calls, reordered + fresh-instance re-runs; oracle RefSurface (brute force over the face list); faces-level world shrinking"),
    "C02": ("4 (C02)", "build / re-wrap (also with appended edges) / re-build / observe histories of one raw spec through every constructor path (raw containers, arrays, obj / medit / tet files incl. rewritten paths and relative-index files) and container flavour, failed first attempts, completion switches flipped by a co-resident client; oracle RefNormalise"),
    "C03": ("4 (C03)", "shared VolumeMesh (any row flavour, absolute scale, declared border triangles) queried by interleaved clients incl. both boundary extractors, a second volume, background library calls, cache drops with or without a switch of the sorting mode, reordered + fresh-instance re-runs; oracle RefVolume (brute force over the cell list); cell-level world shrinking"),
    "C04": ("4 (C04)", "save / load / cross-read / cross-write / edit-and-save-again histories over a simulated file system (SimFS) across 7 formats, interleaved attribute-adding queries, export switches flipped, lexical perturbations and dialect variants of independently written files, overwritten paths, raw loads; oracle: snapshot at save time + independent reference codecs"),
    "C05": ("4 (C05)", "stateful histories on containers with twin sparse/dense attributes (create / re-create / set / in-place update / copy entry / grow / clear / export), appended containers kept alive, rejected operations injected anywhere; oracle RefAttr + sparse-vs-dense lock-step"),
    "C06": ("4 (C06)", "pool of meshes from every producer (incl. hexahedra, clouds, loaded files, boundaries, subdivisions), clients interleaving copy / merge / transform / in-place edit / attribute edit calls, rejected calls; every mesh (coordinates, elements, corner tables, attributes) compared with an independent float64 model after every call"),
    "C11": ("4 (C11)", "tree construction under a simulator-owned PRNG (per-call reseed or shared stream with a noise client; fair-adversarial forced pivots) and a deterministic step budget on sys.monitoring (bounded liveness), then query clients sharing the tree (fresh points or one caller-owned buffer), rebuilds, a second tree on another cloud in between; oracle: brute-force k-NN / radius and the leaf partition"),
    "C12": ("4 (C12)", "pools of caller-owned arrays (overwritten in place by the caller) and of boxes built on them; box / primitive clients interleaved with an environment client that owns numpy's error mode and a rejector issuing calls that must raise; oracles: RefAABB, exact-rational laws, bitwise snapshots of every caller array, np.geterr()"),
    "C13": ("4 (C13)", "editing-block histories (cold or warm caches, open block - also verbose -, seeded operation sequence, failing operation leaving the block, close, observers on result and passed-in object incl. boundary data carried over, second block, another mesh edited in between); oracles: documented counts, topology, area/volume, vertex placement, RefSurface/RefVolume on the result"),
    "C19": ("4 (C19)", "sampler clients drawing from the simulator-owned global PRNG interleaved with a noise client (arbitrary stream positions), Bezier client (control points replaced, returned values edited by the caller) and rejector; boxes moved by the caller; oracles: domain containment, exact counts, seeded chi-square on shares (large draws or many small ones) at p=1e-12, Bernstein form"),
    "C20": ("4 (C20)", "stateful histories on one shared UnionFind and PriorityQueue by several clients, rejected operations injected, other instances and the caller's own constructor list used in between, handed-out items kept; oracles RefUF / RefPQ (multiset)"),
}

NOT_APPLICABLE = {
    "C07": "pure function of (mesh, options): no history, shared state, I/O, randomness or termination clause for a simulator to schedule or fault; deciding it is property-based testing, not simulation (DESIGN.md section 6)",
    "C08": "each operator is a pure function of the mesh and its options; nothing to schedule or fault (DESIGN.md section 6)",
    "C09": "pure function of (mesh, start, targets, weights); deterministic heap; no history or fault in the statement (DESIGN.md section 6)",
    "C10": "pure function of (mesh, root, exclusions, weights); the random default root is a quantified input, not a schedule (DESIGN.md section 6)",
    "C14": "generators are pure functions of their parameters (DESIGN.md section 6)",
    "C15": "pure function of (mesh, options) (DESIGN.md section 6)",
    "C16": "pure function of (mesh, singularity set, features) (DESIGN.md section 6)",
    "C17": "one deterministic linear solve per call; pure (DESIGN.md section 6)",
    "C18": "deterministic solves; the eigen-solver's random start vector is not quantified over; pure (DESIGN.md section 6)",
}

PENDING = {  # claimed by the design, check not built yet
    "C02": "simulation designed (DESIGN.md section 4) but the check is not built yet in this revision",
    "C03": "simulation designed (DESIGN.md section 4) but the check is not built yet in this revision",
    "C04": "simulation designed (DESIGN.md section 4) but the check is not built yet in this revision",
    "C06": "simulation designed (DESIGN.md section 4) but the check is not built yet in this revision",
    "C12": "simulation designed (DESIGN.md section 4) but the check is not built yet in this revision",
    "C13": "simulation designed (DESIGN.md section 4) but the check is not built yet in this revision",
    "C19": "simulation designed (DESIGN.md section 4) but the check is not built yet in this revision",
}


def main():
    checks = []
    for pid, (ref, what) in sorted(CLAIMED.items()):
        checks.append({
            "property_id": pid,
            "quick_cmd": "./check %s --tier quick" % pid,
            "thorough_cmd": "./check %s --tier thorough" % pid,
            "evidence_file": "evidence/%s.json" % pid,
            "replay_cmd_template": "./check %s --replay {path}" % pid,
            "engine": "detsim",
            "level_claimed": {
                "category": "exploration",
                "text": "Seeded search over many deterministic simulated runs (" + what + "). A clean batch is evidence that "
                        "the property held on every sampled history, not a proof; every violation is minimised and replays exactly from its file.",
                "design_ref": "DESIGN.md section " + ref,
            },
            "level_note": "Trusted base: the reference models under /verif/models and the per-step oracles in /verif/props (each clause quotes the "
                          "sentence of the statement it implements), the generators' validators (inputs stay inside the statement's domain), CPython/numpy. "
                          "Sampling, not enumeration.",
            "technique": "deterministic simulation with fault injection: seeded scheduler over logical clients on shared state, reference-model oracle, "
                         "ddmin-minimised replay files",
        })
    na = [{"property_id": k, "reason": v} for k, v in sorted({**NOT_APPLICABLE, **{k: v for k, v in PENDING.items() if k not in CLAIMED}}.items())]
    m = {
        "version": 1,
        "setup_cmd": "/venv/bin/python -c \"import mouette, numpy, scipy\" && /venv/bin/python /verif/tools/selfcheck.py",
        "hooks": {
            "guard": "MOUETTE_VERIF",
            "enable": "no hook is compiled into mouette: every seam (module-level open, global PRNG seeding, sys.monitoring step counter, mouette.config, "
                      "numpy.seterr) is taken from outside by /verif/sim; MOUETTE_VERIF is reserved should one become necessary. Checks import /repo's working tree directly.",
            "baseline_off_cmd": "cd /repo && /venv/bin/python -m pytest -ra -q -p no:cacheprovider --timeout=900 --continue-on-collection-errors",
            "source_commits": [],
            "add_only": True,
        },
        "engines": [{
            "name": "detsim", "path": "sim/",
            "serves_properties": sorted(CLAIMED),
            "kind_free_text": "pure-Python deterministic simulator: SplitMix64 PRNG tree from VERIF_SEED, logical clients + bursty seeded scheduler, "
                              "global-state seams (numpy PRNG / random / np.seterr / mouette.config / warnings), per-step reference-model oracles, "
                              "known-findings matcher, ddmin minimiser, replay files, fork-based parallel batches",
        }],
        "checks": checks,
        "notes": "All checks: ./check <id> --tier quick|thorough ; replay: ./check <id> --replay <file>. Exit 0 held / 1 VIOLATION / 2 harness error (no verdict).",
        "not_applicable": na,
    }
    with open(os.path.join(HERE, "MANIFEST.json"), "w") as f:
        json.dump(m, f, indent=1)
    print("MANIFEST.json written: %d checks, %d not_applicable" % (len(checks), len(na)))


if __name__ == "__main__":
    main()
