#!/venv/bin/python
"""setup self-check: the framework imports, mouette comes from /repo's working tree, and a handful of
simulated runs are bit-for-bit repeatable in this interpreter."""
import os, sys, warnings
warnings.filterwarnings("ignore")
HERE = os.path.dirname(os.path.dirname(os.path.abspath(__file__)))
sys.path.insert(0, HERE)
import importlib
import mouette
assert os.path.realpath(mouette.__file__).startswith(os.path.realpath(os.environ.get("VERIF_REPO", "/repo"))), mouette.__file__
from sim.engine import run_seed
n = 0
import json
claimed = [c["property_id"].lower() for c in json.load(open(os.path.join(HERE, "MANIFEST.json")))["checks"]]
for f in sorted(os.listdir(os.path.join(HERE, "props"))):
    if f.startswith("c") and f.endswith(".py") and f[:-3] in claimed:
        sim = importlib.import_module("props." + f[:-3]).SIM
        for s in (11, 12, 13):
            a, b = run_seed(sim, s, "quick"), run_seed(sim, s, "quick")
            assert a.digest == b.digest, (f, s)
            n += 1
print("selfcheck ok: %d repeatable runs" % n)
